"""Contracts for biobalm/trappist_core.py (the trap-space solver wrappers). Sidecar; no repository code.

Callback schema (DESIGN.md 6.4, TRUSTED meta-argument = induction over the sequence of callback invocations):
`trappist_async` / `compute_fixed_point_reduced_STG_async` call `on_solution` on the elements of the solver's
enumeration, in order, until it returns False.  For an *appending* callback (contract with `append_schema`:
appends its argument to one captured list and returns cont(new length)) the captured list afterwards is
old ++ sols[0..m) where every call but the last returned True and m = len(sols) or the last call returned False."""
import z3
from pyvc.vtypes import *
from pyvc.contract import Contract, LoopContract, Ctx
from pyvc import theory as T
from pyvc import sdmodel as M
from pyvc import engine as E
from .deps import LSet, SrcOf, AvoidOf, NoSrc, elems_wf, LS, LN, OptInt, OptSpace, OptLS, OptLN

a = z3.Int("a")
EMPTYS = z3.K(Name, z3.IntVal(-1))
RetainedSig = T.SpaceS
ReducedSol = z3.Function("ReducedSol", T.PNS, T.SpaceS, T.SpaceS, T.AvoidSig, T.SpaceSet)   # deadlocks of Reduced(pn, retained) inside ensure, outside avoid


def _cont(limit):
    """save_result's return value as a function of the new list length"""
    return lambda n: z3.Or(OptInt.is_none(limit), n < OptInt.val(limit))


def _save_result_contract(outer):
    def post_append(c):
        r, o = c.results, c.old.results
        return z3.And(LS.len(r) == LS.len(o) + 1, LS.at(r)[LS.len(o)] == c.x,
                      z3.ForAll([a], z3.Implies(z3.And(0 <= a, a < LS.len(o)), LS.at(r)[a] == LS.at(o)[a])))
    return Contract(
        outer + ".save_result", params=[("x", TSpace)], captured=[("results", LS), ("solution_limit", OptInt)],
        result_type=TBool, modifies={"results": True}, properties=("C09", "C15"),
        requires=[lambda c: LS.len(c.results) >= 0],
        ensures=[("appended", post_append),
                 ("continue_while_below_limit", lambda c: c.result == _cont(c.solution_limit)(LS.len(c.results)))],
        append_schema={"list": "results", "cont": lambda c, n: _cont(c.solution_limit)(n)},
    )


def _async_apply(sol_set):
    """call-site model of the two *_async functions for an appending callback"""
    def apply(eng, st, c, argmap, exprmap, node):
        for nm, ty in c.params:
            if ty is not None:
                argmap[nm] = eng.coerce(argmap[nm], ty, st)
        cb = argmap["on_solution"]
        if not isinstance(cb, E._Closure):
            raise OutOfSubset("on_solution is not a local function")
        cbc = eng.reg.lookup_nested(eng.c.qualname, cb.node.name)
        if cbc is None or cbc.append_schema is None:
            raise OutOfSubset("callback without an append schema")
        lname = cbc.append_schema["list"]
        old = st.env[lname]
        # failure of the solver: RuntimeError, captured list arbitrary (it is discarded by every caller)
        fs = st.clone()
        fs.env[lname] = LS.fresh(lname)
        eng.fork_raise(fs, "RuntimeError")
        ctx = Ctx(eng, st, argmap)
        X = sol_set(ctx)
        sols = LS.fresh("sols")
        m = z3.Int(fresh_name("ncalls"))
        st.assume(z3.And(LS.len(sols.t) >= 0, T.IsEnum(sols.t, X), elems_wf(sols.t)))
        st.assume(z3.And(0 <= m, m <= LS.len(sols.t), z3.Implies(LS.len(sols.t) > 0, m >= 1)))
        new = LS.fresh(lname)
        n0 = LS.len(old.t)
        j = z3.Int(fresh_name("j"))
        st.assume(LS.len(new.t) == n0 + m)
        st.assume(z3.ForAll([j], z3.Implies(z3.And(0 <= j, j < n0), LS.at(new.t)[j] == LS.at(old.t)[j])))
        st.assume(z3.ForAll([j], z3.Implies(z3.And(0 <= j, j < m), LS.at(new.t)[n0 + j] == LS.at(sols.t)[j])))
        st.assume(z3.Implies(z3.And(n0 == 0, m == LS.len(sols.t)), new.t == sols.t))
        cbctx = Ctx(eng, st, dict(st.env))
        cont = cbc.append_schema["cont"]
        st.assume(z3.ForAll([j], z3.Implies(z3.And(1 <= j, j < m), cont(cbctx, n0 + j))))
        st.assume(z3.Or(m == LS.len(sols.t), z3.And(m >= 1, z3.Not(cont(cbctx, n0 + m)))))
        st.env[lname] = new
        st.ghost["sols"] = sols.t
        return NONE
    return apply


def _trap_set(c):
    return T.TrapSol(c.network, c.problem, c.reverse_time, c.ensure_subspace, AvoidOf(c.avoid_subspaces),
                     z3.If(OptLN.is_none(c.optimize_source_variables), SrcOf(c.network), LSet(OptLN.val(c.optimize_source_variables))))


def _trap_set_opt(c):
    """same set, for the Optional-typed parameters of trappist()"""
    return T.TrapSol(
        c.network, c.problem, c.reverse_time,
        z3.If(OptSpace.is_none(c.ensure_subspace), EMPTYS, OptSpace.val(c.ensure_subspace)),
        z3.If(OptLS.is_none(c.avoid_subspaces), T.no_avoid, AvoidOf(OptLS.val(c.avoid_subspaces))),
        z3.If(OptLN.is_none(c.optimize_source_variables), SrcOf(c.network), LSet(OptLN.val(c.optimize_source_variables))))


_l0 = z3.Const("l!0", LS.sort())
AX_AVOID = [z3.ForAll([_l0], z3.Implies(LS.len(_l0) == 0, AvoidOf(_l0) == T.no_avoid), patterns=[AvoidOf(_l0)])]


def limit_clauses(c, lim):
    return z3.Implies(z3.Not(OptInt.is_none(lim)), z3.And(
        z3.Implies(OptInt.val(lim) <= 0, LS.len(c.result) == 0),
        z3.Implies(OptInt.val(lim) >= 1, LS.len(c.result) <= OptInt.val(lim))))


def install(reg):
    # ---- assumed composites (clingo + encoding + model conversion), DESIGN.md 6.3; listed as trusted
    reg.add(Contract(
        "biobalm.trappist_core.trappist_async", trusted=True,
        params=[("network", M.TPN), ("on_solution", None), ("problem", TInt), ("reverse_time", TBool),
                ("ensure_subspace", TSpace), ("avoid_subspaces", LS), ("optimize_source_variables", OptLN)],
        defaults={"problem": 0, "reverse_time": False},
        properties=("C09",), custom_apply=_async_apply(_trap_set),
        note="enumerates TrapSol(pn, problem, reverse, ensure, avoid, sources) via _create_clingo_constraints + clingo domRec enumeration + "
             "_clingo_model_to_space and feeds each solution to on_solution until it returns False (callback schema, DESIGN.md 6.4)"))
    reg.add(Contract(
        "biobalm.trappist_core.compute_fixed_point_reduced_STG_async", trusted=True,
        params=[("petri_net", M.TPN), ("retained_set", TSpace), ("on_solution", None), ("ensure_subspace", TSpace), ("avoid_subspaces", LS)],
        properties=("C09",),
        custom_apply=_async_apply(lambda c: ReducedSol(c.petri_net, c.retained_set, c.ensure_subspace, AvoidOf(c.avoid_subspaces))),
        note="enumerates the deadlocks of the net reduced by the retained set via _create_clingo_fixed_point_constraints + clingo"))

    reg.add(_save_result_contract("biobalm.trappist_core.trappist"), nested_in="biobalm.trappist_core.trappist")
    reg.add(_save_result_contract("biobalm.trappist_core.compute_fixed_point_reduced_STG"),
            nested_in="biobalm.trappist_core.compute_fixed_point_reduced_STG")

    # ---- trappist (verified against its body, using the callback schema)
    reg.add(Contract(
        "biobalm.trappist_core.trappist",
        params=[("network", M.TPN), ("problem", TInt), ("reverse_time", TBool), ("solution_limit", OptInt),
                ("ensure_subspace", OptSpace), ("avoid_subspaces", OptLS), ("optimize_source_variables", OptLN)],
        defaults={"problem": 0, "reverse_time": False, "solution_limit": None, "ensure_subspace": None,
                  "avoid_subspaces": None, "optimize_source_variables": None},
        result_type=LS, properties=("C09", "C02", "C03", "C04", "C15"),
        may_raise={"RuntimeError": {}}, raises={"RuntimeError": []},
        axioms=AX_AVOID,
        ensures=[("elements_wf", lambda c: elems_wf(c.result)),
                 ("limit_respected", lambda c: limit_clauses(c, c.solution_limit)),
                 ("complete_unless_truncated", lambda c: z3.Implies(
                     z3.Or(OptInt.is_none(c.solution_limit), LS.len(c.result) < OptInt.val(c.solution_limit)),
                     T.IsEnum(c.result, _trap_set_opt(c))))],
        local_types={"results": LS},
    ))

    # ---- compute_fixed_point_reduced_STG
    reg.add(Contract(
        "biobalm.trappist_core.compute_fixed_point_reduced_STG",
        params=[("petri_net", M.TPN), ("retained_set", TSpace), ("ensure_subspace", TSpace), ("avoid_subspaces", LS), ("solution_limit", OptInt)],
        defaults={"solution_limit": None, "retained_set": TSpace.empty(), "ensure_subspace": TSpace.empty(), "avoid_subspaces": LS.empty()},
        result_type=LS, properties=("C09", "C08", "C01"),
        may_raise={"RuntimeError": {}}, raises={"RuntimeError": []},
        axioms=AX_AVOID,
        ensures=[("elements_wf", lambda c: elems_wf(c.result)),
                 ("limit_respected", lambda c: limit_clauses(c, c.solution_limit)),
                 ("complete_unless_truncated", lambda c: z3.Implies(
                     z3.Or(OptInt.is_none(c.solution_limit), LS.len(c.result) < OptInt.val(c.solution_limit)),
                     T.IsEnum(c.result, ReducedSol(c.petri_net, c.retained_set, c.ensure_subspace, AvoidOf(c.avoid_subspaces)))))],
        local_types={"results": LS},
    ))


def install_models(reg):
    from pyvc import pnmodel as P
    n, m2 = z3.Const("n", P.PNode), z3.Const("m", P.PNode)
    v = z3.Const("v", Name)
    atoms = lambda c: P.atoms_of(c.model)
    wf_model = lambda c: z3.And(
        z3.ForAll([n], z3.Implies(atoms(c)[n], z3.And(P.is_place(n), n == P.place(P.pvar(n), P.ppos(n))))),
        z3.ForAll([n, m2], z3.Implies(z3.And(atoms(c)[n], atoms(c)[m2], P.pvar(n) == P.pvar(m2)), n == m2)))
    for fname, pos_val in (("_clingo_model_to_space", 0), ("_clingo_model_to_fixed_point", 1)):
        reg.add(Contract(
            "biobalm.trappist_core." + fname, params=[("model", P.TModel)], result_type=TSpace,
            properties=("C09",),
            requires=[wf_model],
            ensures=[("polarity_map", (lambda pv: lambda c: z3.ForAll([v], c.result[v] == z3.If(
                atoms(c)[P.place(v, True)], pv, z3.If(atoms(c)[P.place(v, False)], 1 - pv, -1))))(pos_val))],
            axioms=P.AX_PLACE,
            local_types={"space": TSpace},
            loops={0: LoopContract("for atom in model.symbols(atoms=True)", (lambda pv: lambda c: [
                ("converted_so_far", z3.ForAll([v], c.space[v] == z3.If(
                    z3.And(atoms(c)[P.place(v, True)], c.visited[P.place(v, True)]), pv,
                    z3.If(z3.And(atoms(c)[P.place(v, False)], c.visited[P.place(v, False)]), 1 - pv, -1))))])(pos_val))},
            note="a siphon atom p_v means 'v cannot become 1 ... ' (inverted polarity) for trap spaces; direct polarity for fixed points",
        ))


# ====================================================================== the answer-set programs (C09), rule level
_SPEC = {}


def install_programs(reg):
    """_create_clingo_constraints / _create_clingo_fixed_point_constraints against a rule-level specification: the set of rules
    added to the clingo Control is EXACTLY the program of DESIGN.md 6.3 (two inclusions), and the enumeration mode matches the
    problem.  What the stable models of that program are (L4 / L9) is mathematics about the specification, not about the code."""
    from pyvc import pnmodel as P
    from pyvc import aspmodel as A
    G, R = P.PNGraph, A.Rule
    LNm = LN
    MemNm, AX_MEMN = T.mem_theory(LNm, "name")
    r_, t_, b_, p_ = z3.Const("r!s", A.Rule), z3.Const("t!s", P.PNode), z3.Const("b!s", P.PNode), z3.Const("p!s", P.PNode)
    v_ = z3.Const("v!s", Name)
    ai = z3.Int("a!s")
    TRUE, FALSE = z3.BoolVal(True), z3.BoolVal(False)

    def Ens(c):
        return z3.If(OptSpace.is_none(c.ensure_subspace), EMPTYS, OptSpace.val(c.ensure_subspace))

    def Av(c):
        return z3.If(OptLS.is_none(c.avoid_subspaces), LS.empty().t, OptLS.val(c.avoid_subspaces))

    def Src(c):
        return z3.If(OptLN.is_none(c.optimize_source_variables), LNm.empty().t, OptLN.val(c.optimize_source_variables))

    def vpair(v):
        return A.pair(P.place(v, TRUE), P.place(v, FALSE))

    def avoid_body(sp, one_is_negative):
        """{ place(v, sp[v] != 1) | v in dom sp }  (trap spaces: inverted polarity)   or   { place(v, sp[v] == 1) | ... } (fixed points)"""
        pol = (lambda x: x != 1) if one_is_negative else (lambda x: x == 1)
        return z3.Lambda([p_], z3.And(P.is_place(p_), sp[P.pvar(p_)] >= 0, P.ppos(p_) == pol(sp[P.pvar(p_)])))

    def free_set(c):
        g = c.petri_net
        return z3.Lambda([p_], z3.And(G.nodes(g)[p_], A.kind_of(p_) == 0, Ens(c)[P.pvar(p_)] < 0))

    def wf_net(c):
        g = c.petri_net
        return z3.ForAll([p_], z3.Implies(G.nodes(g)[p_], z3.And(
            z3.Or(A.kind_of(p_) == 0, A.kind_of(p_) == 1),
            z3.Implies(A.kind_of(p_) == 0, z3.And(P.is_place(p_), p_ == P.place(P.pvar(p_), P.ppos(p_)))))))

    # ---- progress descriptors: which part of each stage has been emitted
    class Prog:
        def __init__(self, d1, d2, d3, d4, max_done, d5):
            self.d1, self.d2, self.d3, self.d4, self.max_done, self.d5 = d1, d2, d3, d4, max_done, d5

    def clauses(c, rules, pg):
        """the rule set, constructor by constructor: rules[r] <=> r is one of the rules of the specification emitted so far"""
        g, E_, AV = c.petri_net, Ens(c), Av(c)
        fix, mx, rev = c.problem == 2, c.problem == 1, c.reverse_time
        r = r_
        has_free = z3.Exists([p_], free_set(c)[p_])
        ok_choice = z3.And(P.is_place(R.atom(r)), R.atom(r) == P.place(P.pvar(R.atom(r)), P.ppos(R.atom(r))), pg.d1(P.pvar(R.atom(r))))
        ok_constraint = z3.Or(
            z3.Exists([v_], z3.And(pg.d1(v_), R.cbody(r) == vpair(v_))),
            z3.Exists([ai], z3.And(pg.d3(ai), R.cbody(r) == avoid_body(LS.at(AV)[ai], True))))
        ok_disj = z3.Or(
            z3.And(fix, z3.Exists([v_], z3.And(pg.d1(v_), R.dhead(r) == vpair(v_)))),
            z3.Exists([v_], z3.And(pg.d2(v_), R.dhead(r) == A.single(P.place(v_, E_[v_] != 1)))),
            z3.And(mx, pg.max_done, has_free, R.dhead(r) == free_set(c)),
            z3.And(mx, has_free, z3.Exists([v_], z3.And(pg.d5(v_), E_[v_] < 0, R.dhead(r) == vpair(v_)))))
        ok_imp = z3.Exists([t_], z3.And(pg.d4(t_, R.ibody(r)), A.kind_of(t_) == 1, z3.If(
            rev,
            z3.And(R.ihead(r) == A.succs_set(g, t_), A.preds_set(g, t_)[R.ibody(r)], z3.Not(A.succs_set(g, t_)[R.ibody(r)])),
            z3.And(R.ihead(r) == A.preds_set(g, t_), A.succs_set(g, t_)[R.ibody(r)], z3.Not(A.preds_set(g, t_)[R.ibody(r)])))))
        return [
            ("choice_rules", z3.ForAll([r_], z3.Implies(R.is_choice(r), rules[r] == ok_choice))),
            ("integrity_constraints", z3.ForAll([r_], z3.Implies(R.is_constraint(r), rules[r] == ok_constraint))),
            ("disjunctive_facts", z3.ForAll([r_], z3.Implies(R.is_disj(r), rules[r] == ok_disj))),
            # a rule whose body atom also occurs in its head is a tautology (removing or adding it never changes the stable
            # models): the code skips them as an optimisation, the specification leaves their presence open
            ("siphon_or_trap_rules", z3.ForAll([r_], z3.Implies(z3.And(R.is_imp(r), z3.Not(R.ihead(r)[R.ibody(r)])), rules[r] == ok_imp))),
            ("only_tautologies_besides", z3.ForAll([r_], z3.Implies(z3.And(R.is_imp(r), R.ihead(r)[R.ibody(r)], rules[r]), z3.Exists([t_], z3.And(
                pg.d4(t_, R.ibody(r)), A.kind_of(t_) == 1,
                z3.If(rev, z3.And(R.ihead(r) == A.succs_set(g, t_), A.preds_set(g, t_)[R.ibody(r)]),
                      z3.And(R.ihead(r) == A.preds_set(g, t_), A.succs_set(g, t_)[R.ibody(r)]))))))),
            ("never_false", z3.Not(rules[R.falsum])),
        ]

    NONE1 = lambda v: FALSE
    NONE2 = lambda t, b: FALSE
    ALL1 = lambda c: (lambda v: MemNm(c.variables, v))
    ALL2 = lambda c: (lambda v: Ens(c)[v] >= 0)
    ALL3 = lambda c: (lambda a: z3.And(0 <= a, a < LS.len(Av(c))))
    ALL4 = lambda c: (lambda t, b: G.nodes(c.petri_net)[t])
    ALL5 = lambda c: (lambda v: MemNm(Src(c), v))

    def vis(c, sort=Name):
        """ghost visited-set of the current loop (a loop over an empty literal has none: nothing is visited)"""
        try:
            return c.visited
        except AttributeError:
            return z3.K(sort, FALSE)

    def idx(c):
        try:
            return c.i
        except AttributeError:
            return z3.IntVal(0)

    def prefix(lst, i, lty=LNm):
        return lambda v: z3.Exists([ai], z3.And(0 <= ai, ai < i, lty.at(lst)[ai] == v))

    def mode(c, ctl):
        return ("enumeration_mode", A.Ctl.dommod(ctl) == z3.If(c.problem == 1, 5, 3))

    def free_inv(c, vis):
        """free_places lists exactly the visited free places"""
        fp = c.free_places
        return ("free_places_so_far", z3.And(LP.len(fp) >= 0, z3.ForAll([p_], A.MemP(fp, p_) == z3.And(vis[p_], free_set(c)[p_]))))

    LP = A.LP
    names = ["choice_rules", "integrity_constraints", "disjunctive_facts", "siphon_or_trap_rules", "only_tautologies_besides", "never_false"]

    def post(c):
        pg = Prog(ALL1(c), ALL2(c), ALL3(c), ALL4(c), TRUE, ALL5(c))
        return clauses(c, A.Ctl.rules(c.result), pg) + [mode(c, c.result)]

    def inv1(c):
        pg = Prog(prefix(c.variables, c.i), NONE1, lambda a: FALSE, NONE2, FALSE, NONE1)
        return clauses(c, A.Ctl.rules(c.ctl), pg) + [mode(c, c.ctl)]

    def inv2(c):
        pg = Prog(ALL1(c), lambda v: vis(c)[v], lambda a: FALSE, NONE2, FALSE, NONE1)
        return clauses(c, A.Ctl.rules(c.ctl), pg) + [mode(c, c.ctl)]

    def inv3(c):
        pg = Prog(ALL1(c), ALL2(c), lambda a: z3.And(0 <= a, a < idx(c)), NONE2, FALSE, NONE1)
        return clauses(c, A.Ctl.rules(c.ctl), pg) + [mode(c, c.ctl)]

    def inv4(c):
        pg = Prog(ALL1(c), ALL2(c), ALL3(c), lambda t, b: c.visited[t], FALSE, NONE1)
        return clauses(c, A.Ctl.rules(c.ctl), pg) + [mode(c, c.ctl), free_inv(c, c.visited),
                                                      ("first_free_place", z3.Implies(LP.len(c.free_places) > 0, A.MemP(c.free_places, LP.at(c.free_places)[0])))]

    def inv4in(c):
        o = c.outer(3)
        pg = Prog(ALL1(c), ALL2(c), ALL3(c), lambda t, b: z3.Or(o["visited"][t], z3.And(t == c.node, c.visited[b])), FALSE, NONE1)
        return clauses(c, A.Ctl.rules(c.ctl), pg) + [mode(c, c.ctl), free_inv(c, o["visited"]),
                                                      ("current_node", z3.And(G.nodes(c.petri_net)[c.node], A.kind_of(c.node) == 1, z3.Not(o["visited"][c.node])))]

    def inv5(c):
        pg = Prog(ALL1(c), ALL2(c), ALL3(c), ALL4(c), TRUE, prefix(Src(c), idx(c)))
        return clauses(c, A.Ctl.rules(c.ctl), pg) + [mode(c, c.ctl),
                                                      ("in_max_branch", z3.And(c.problem == 1, z3.Exists([p_], free_set(c)[p_])))]

    _SPEC["trap_program"] = post
    _SPEC["wf_net"] = wf_net
    reg.add(Contract(
        "biobalm.trappist_core._create_clingo_constraints",
        params=[("variables", LNm), ("petri_net", P.TPNG), ("problem", TInt), ("reverse_time", TBool),
                ("ensure_subspace", OptSpace), ("avoid_subspaces", OptLS), ("optimize_source_variables", OptLN)],
        defaults={"problem": 0, "reverse_time": False, "ensure_subspace": None, "avoid_subspaces": None, "optimize_source_variables": None},
        result_type=A.TCtl, properties=("C09",),
        requires=[wf_net, lambda c: z3.And(0 <= c.problem, c.problem <= 2),
                  lambda c: z3.Implies(z3.Not(OptSpace.is_none(c.ensure_subspace)), T.wf_space(OptSpace.val(c.ensure_subspace))),
                  lambda c: z3.Implies(z3.Not(OptLS.is_none(c.avoid_subspaces)), elems_wf(OptLS.val(c.avoid_subspaces)))],
        ensures=[(nm, (lambda k: (lambda c: dict(post(c))[k]))(nm)) for nm in names + ["enumeration_mode"]],
        raises={"Exception": [("never", lambda c: FALSE)]},
        axioms=P.AX_PLACE + A.AX_MEMP + AX_MEMN,
        lemmas=[("def.Mem(first element)", lambda c: z3.Implies(LP.len(c.free_places) > 0, A.MemP(c.free_places, LP.at(c.free_places)[0])))],
        local_types={"free_places": LP, "ctl": A.TCtl}, ann_types={"list[str]": LP}, merge_ifs=True,
        loops={0: LoopContract("for var_name in variables", inv1),
               1: LoopContract("for fixed_var in ensure_subspace", inv2),
               2: LoopContract("for to_avoid in avoid_subspaces", inv3),
               3: LoopContract("for node, kind in petri_net.nodes(data='kind')", inv4),
               4: LoopContract("for successor in petri_net.successors(node)", inv4in),
               5: LoopContract("for predecessor in petri_net.predecessors(node)", inv4in),
               6: LoopContract("for variable in optimize_source_variables", inv5)},
        note="rule-level specification; the Petri net is an arbitrary graph whose nodes are places (named place(v, b)) or transitions",
    ))

    # ------------------------------------------------------------------ _create_clingo_fixed_point_constraints
    def fp_clauses(c, rules, d1, d4, d2, d3, exact=TRUE):
        """rules[r] <=> r is a rule of the deadlock program emitted so far (places, transitions, ensured values, avoided spaces)"""
        g, AV = c.petri_net, Av(c)
        E_ = Ens(c)
        r = r_
        ok_choice = z3.And(P.is_place(R.atom(r)), R.atom(r) == P.place(P.pvar(R.atom(r)), P.ppos(R.atom(r))), d1(P.pvar(R.atom(r))))
        ok_constraint = z3.Or(
            z3.Exists([v_], z3.And(d1(v_), R.cbody(r) == vpair(v_))),
            z3.Exists([t_], z3.And(d4(t_), A.kind_of(t_) == 1, R.cbody(r) == A.preds_set(g, t_))),
            z3.Exists([ai], z3.And(d3(ai), R.cbody(r) == avoid_body(LS.at(AV)[ai], False))))
        ok_disj = z3.Or(
            z3.Exists([v_], z3.And(d1(v_), R.dhead(r) == vpair(v_))),
            z3.Exists([v_], z3.And(d2(v_), R.dhead(r) == A.single(P.place(v_, E_[v_] != 0)))))
        return [
            ("choice_rules", z3.Implies(exact, z3.ForAll([r_], z3.Implies(R.is_choice(r), rules[r] == ok_choice)))),
            ("integrity_constraints", z3.Implies(exact, z3.ForAll([r_], z3.Implies(R.is_constraint(r), rules[r] == ok_constraint)))),
            ("disjunctive_facts", z3.Implies(exact, z3.ForAll([r_], z3.Implies(R.is_disj(r), rules[r] == ok_disj)))),
            ("no_other_rules", z3.Implies(exact, z3.ForAll([r_], z3.Implies(R.is_imp(r), z3.Not(rules[r]))))),
        ]

    def no_empty_before(c, n):
        return z3.ForAll([ai], z3.Implies(z3.And(0 <= ai, ai < n), T.card(LS.at(Av(c))[ai]) > 0))

    FNAMES = ["choice_rules", "integrity_constraints", "disjunctive_facts", "no_other_rules"]
    FALL1 = lambda c: (lambda v: MemNm(c.variables, v))
    FALL4 = lambda c: (lambda t: G.nodes(c.petri_net)[t])
    FALL2 = lambda c: (lambda v: Ens(c)[v] >= 0)
    NONEI = lambda a: FALSE

    def fp_post(c):
        n = LS.len(Av(c))
        rules = A.Ctl.rules(c.result)
        return fp_clauses(c, rules, FALL1(c), FALL4(c), FALL2(c), lambda a: z3.And(0 <= a, a < n), exact=no_empty_before(c, n)) + [
            ("false_iff_some_avoided_space_is_everything", rules[R.falsum] == z3.Not(no_empty_before(c, n))),
            ("enumeration_mode", A.Ctl.dommod(c.result) == 3)]

    def fp_inv(stage):
        def f(c):
            rules = A.Ctl.rules(c.ctl)
            d1 = prefix(c.variables, idx(c)) if stage == 0 else FALL1(c)
            d4 = (lambda t: FALSE) if stage < 1 else ((lambda t: vis(c, P.PNode)[t]) if stage == 1 else FALL4(c))
            d2 = NONE1 if stage < 2 else ((lambda v: vis(c)[v]) if stage == 2 else FALL2(c))
            d3 = NONEI if stage < 3 else (lambda a: z3.And(0 <= a, a < idx(c)))
            extra = [("never_false_so_far", z3.Not(rules[R.falsum])), ("enumeration_mode", A.Ctl.dommod(c.ctl) == 3)]
            if stage == 3:
                extra.append(("no_empty_space_so_far", no_empty_before(c, idx(c))))
            return fp_clauses(c, rules, d1, d4, d2, d3) + extra
        return f

    _SPEC["fixed_point_program"] = fp_post
    reg.add(Contract(
        "biobalm.trappist_core._create_clingo_fixed_point_constraints",
        params=[("variables", LNm), ("petri_net", P.TPNG), ("ensure_subspace", OptSpace), ("avoid_subspaces", OptLS)],
        defaults={"ensure_subspace": None, "avoid_subspaces": None},
        result_type=A.TCtl, properties=("C09",),
        requires=[wf_net,
                  lambda c: z3.Implies(z3.Not(OptSpace.is_none(c.ensure_subspace)), T.wf_space(OptSpace.val(c.ensure_subspace))),
                  lambda c: z3.Implies(z3.Not(OptLS.is_none(c.avoid_subspaces)), elems_wf(OptLS.val(c.avoid_subspaces)))],
        ensures=[(nm, (lambda k: (lambda c: dict(fp_post(c))[k]))(nm)) for nm in FNAMES + ["false_iff_some_avoided_space_is_everything", "enumeration_mode"]],
        raises={"Exception": [("never", lambda c: FALSE)]},
        axioms=P.AX_PLACE + A.AX_MEMP + AX_MEMN + [T.AX_CARD, T.AX_CARD0],
        local_types={"ctl": A.TCtl}, merge_ifs=True,
        loops={0: LoopContract("for node in variables", fp_inv(0)),
               1: LoopContract("for node, kind in petri_net.nodes(data='kind')", fp_inv(1)),
               2: LoopContract("for fixed_var, value in ensure_subspace.items()", fp_inv(2)),
               3: LoopContract("for to_avoid in avoid_subspaces", fp_inv(3))},
        note="rule-level specification of the deadlock (fixed point) program; when some avoided space is the whole state space the "
             "program contains #false and the remaining rules are irrelevant",
    ))


# ====================================================================== the solver drivers, verified against their bodies (C09)
def install_async_bodies(reg):
    """trappist_async against its body: the program handed to clingo is the specified program OF THE RIGHT ARGUMENTS (the variables and
    sources of the given net, the given net itself, the given problem / direction / ensure / avoid), and the callback is fed the decoded
    models of clingo's enumeration in order until it returns False.  Call sites keep the call-site view (`custom_apply`: an enumeration of
    TrapSol); the step from the body-level postcondition to the call-site view is exactly the trusted mathematics L4 / L9 + clingo."""
    import types
    from pyvc import pnmodel as P
    from pyvc import aspmodel as A
    n_, v_ = z3.Const("n!ab", P.PNode), z3.Const("v!ab", Name)
    j_ = z3.Int("j!ab")
    LM, LB = A.LModels, TList(TBool)

    def spec_ns(c, ctl):
        g = c.network
        src = z3.If(OptLN.is_none(c.optimize_source_variables), A.SortedNames(A.SrcSetG(g)), OptLN.val(c.optimize_source_variables))
        return types.SimpleNamespace(variables=A.SortedNames(A.VarSetG(g)), petri_net=g, problem=c.problem, reverse_time=c.reverse_time,
                                     ensure_subspace=c.ensure_subspace, avoid_subspaces=c.avoid_subspaces,
                                     optimize_source_variables=OptLN.some(src), result=ctl)

    def solved(c):
        return c.st.ghost["solved_ctl"]

    def decode_trap(atoms, v):
        return z3.If(atoms[P.place(v, True)], 0, z3.If(atoms[P.place(v, False)], 1, -1))

    def protocol(c, args, rets, ms, decode):
        m = LS.len(args)
        return z3.And(
            m == LB.len(rets), 0 <= m, m <= LM.len(ms),
            z3.ForAll([j_, v_], z3.Implies(z3.And(0 <= j_, j_ < m), LS.at(args)[j_][v_] == decode(P.atoms_of(LM.at(ms)[j_]), v_))),
            z3.ForAll([j_], z3.Implies(z3.And(0 <= j_, j_ < m - 1), LB.at(rets)[j_])),
            z3.Or(m == LM.len(ms), z3.And(m >= 1, z3.Not(LB.at(rets)[m - 1]))))

    def wf_models(ms):
        a_, b_ = z3.Const("a!wm", P.PNode), z3.Const("b!wm", P.PNode)
        at = lambda j: P.atoms_of(LM.at(ms)[j])
        return z3.ForAll([j_], z3.Implies(z3.And(0 <= j_, j_ < LM.len(ms)), z3.And(
            z3.ForAll([a_], z3.Implies(at(j_)[a_], z3.And(P.is_place(a_), a_ == P.place(P.pvar(a_), P.ppos(a_))))),
            z3.ForAll([a_, b_], z3.Implies(z3.And(at(j_)[a_], at(j_)[b_], P.pvar(a_) == P.pvar(b_)), a_ == b_)))))

    names = ["choice_rules", "integrity_constraints", "disjunctive_facts", "siphon_or_trap_rules", "only_tautologies_besides", "never_false", "enumeration_mode"]

    def post(c):
        ctl = solved(c)
        return [("program." + nm, g) for nm, g in _SPEC["trap_program"](spec_ns(c, ctl)) if nm in names] + [
            ("callback_fed_the_decoded_models_in_order_until_false",
             protocol(c, c.on_solution__args, c.on_solution__rets, A.EnumModels(ctl), decode_trap))]

    def loop_inv(c):
        ctl = c.ctl
        ms = A.EnumModels(ctl)
        args, rets = c.on_solution__args, c.on_solution__rets
        return [("one_call_per_visited_model", z3.And(
            LS.len(args) == c.i, LB.len(rets) == c.i, c.coll == ms,
            z3.ForAll([j_, v_], z3.Implies(z3.And(0 <= j_, j_ < c.i), LS.at(args)[j_][v_] == decode_trap(P.atoms_of(LM.at(ms)[j_]), v_))),
            z3.ForAll([j_], z3.Implies(z3.And(0 <= j_, j_ < c.i), LB.at(rets)[j_]))))]

    old = reg.contracts["biobalm.trappist_core.trappist_async"]
    reg.add(Contract(
        "biobalm.trappist_core.trappist_async",
        params=old.params, defaults=old.defaults, custom_apply=old.custom_apply, properties=("C09", "C17", "C19"),
        body_params=[("network", P.TPNG), ("on_solution", E._Callback.param(TSpace)), ("problem", TInt), ("reverse_time", TBool),
                     ("ensure_subspace", OptSpace), ("avoid_subspaces", OptLS), ("optimize_source_variables", OptLN)],
        requires=[lambda c: _SPEC["wf_net"](types.SimpleNamespace(petri_net=c.network)),
                  lambda c: z3.ForAll([n_], z3.Implies(z3.And(P.PNGraph.nodes(c.network)[n_], P.is_place(n_)), n_ == P.place(P.pvar(n_), P.ppos(n_)))),
                  lambda c: z3.And(0 <= c.problem, c.problem <= 2),
                  lambda c: z3.Implies(z3.Not(OptSpace.is_none(c.ensure_subspace)), T.wf_space(OptSpace.val(c.ensure_subspace))),
                  lambda c: z3.Implies(z3.Not(OptLS.is_none(c.avoid_subspaces)), elems_wf(OptLS.val(c.avoid_subspaces)))],
        ensures=[(nm, (lambda k: (lambda c: dict(post(c))[k]))(nm)) for nm in ["program." + x for x in names] +
                 ["callback_fed_the_decoded_models_in_order_until_false"]],
        raises={"RuntimeError": []}, may_raise={"RuntimeError": {}},
        axioms=P.AX_PLACE + A.AX_MEMNAME + A.AX_SORTED + A.AX_NAMESETS,
        lemmas=[("L9.models_of_the_trap_program", lambda c: wf_models(A.EnumModels(c.ctl)))],
        local_types={"ctl": A.TCtl, "variables": A.LNm}, merge_ifs=True,
        loops={0: LoopContract("for model in iterator", loop_inv, lemmas=[("L9.models_of_the_trap_program", lambda c: wf_models(A.EnumModels(c.ctl)))])},
        note="BODY verified for a Petri-net argument (the BooleanNetwork branch translates first and is assumed with network_to_petrinet); "
             "call sites use the call-site view: enumerates TrapSol(pn, problem, reverse, ensure, avoid, sources) and feeds each solution to "
             "on_solution until it returns False (glue: L4 / L9 + clingo domRec enumeration, trusted)"))

    # ------------------------------------------------------------------ compute_fixed_point_reduced_STG_async
    G_ = P.PNGraph
    vr = z3.Const("v!rd", Name)

    def src_place(R, v):
        return P.place(v, R[v] == 1)

    def deleted_by(g, R, v, n):
        """transition n leaves the retained value of v: it consumes the place of the retained value without putting it back"""
        sp = src_place(R, v)
        return z3.And(G_.edge(g)[sp][n], z3.Not(G_.edge(g)[n][sp]))

    def reduced_nodes(g, R, which):
        return z3.Lambda([n_], z3.And(G_.nodes(g)[n_], z3.Not(z3.Exists([vr], z3.And(which(vr), R[vr] >= 0, deleted_by(g, R, vr, n_))))))

    def reduced(c, which=None):
        g, R = c.petri_net, c.retained_set
        return G_.mk(reduced_nodes(g, R, which or (lambda v: z3.BoolVal(True))), G_.edge(g))

    def decode_fp(atoms, v):
        return z3.If(atoms[P.place(v, True)], 1, z3.If(atoms[P.place(v, False)], 0, -1))

    def fp_ns(c, ctl):
        gr = reduced(c)
        return types.SimpleNamespace(variables=A.SortedNames(A.VarSetG(gr)), petri_net=gr, ensure_subspace=c.ensure_subspace,
                                     avoid_subspaces=c.avoid_subspaces, result=ctl)

    FN = ["choice_rules", "integrity_constraints", "disjunctive_facts", "no_other_rules", "false_iff_some_avoided_space_is_everything", "enumeration_mode"]

    def fp_post(c):
        ctl = solved(c)
        return [("program." + nm, g) for nm, g in _SPEC["fixed_point_program"](fp_ns(c, ctl)) if nm in FN] + [
            ("callback_fed_the_decoded_models_in_order_until_false",
             protocol(c, c.on_solution__args, c.on_solution__rets, A.EnumModels(ctl), decode_fp))]

    def outer_inv(c):
        cur = c.reduced_petri_net
        return [("reduced_by_the_visited_variables", cur == reduced(c, lambda v: c.visited[v]))]

    def inner_inv(c):
        o = c.outer(0)
        g, R, cur = c.petri_net, c.retained_set, c.reduced_petri_net
        head = c.at_head(0, "reduced_petri_net")
        return [("outer_state", head == reduced(c, lambda v: o["visited"][v])),
                ("current_variable", z3.And(R[c.node] >= 0, z3.Not(o["visited"][c.node]), c.b_i == R[c.node], c.source_place == src_place(R, c.node))),
                ("to_delete", z3.ForAll([n_], c.coll[n_] == z3.And(G_.nodes(head)[n_], deleted_by(g, R, c.node, n_)))) if False else
                ("removed_so_far", z3.And(G_.edge(cur) == G_.edge(g), z3.ForAll([n_], G_.nodes(cur)[n_] == z3.And(G_.nodes(head)[n_], z3.Not(c.visited[n_])))))]

    def fp_loop_inv(c):
        ms = A.EnumModels(c.ctl)
        args, rets = c.on_solution__args, c.on_solution__rets
        return [("one_call_per_visited_model", z3.And(
            LS.len(args) == c.i, LB.len(rets) == c.i, c.coll == ms,
            z3.ForAll([j_, v_], z3.Implies(z3.And(0 <= j_, j_ < c.i), LS.at(args)[j_][v_] == decode_fp(P.atoms_of(LM.at(ms)[j_]), v_))),
            z3.ForAll([j_], z3.Implies(z3.And(0 <= j_, j_ < c.i), LB.at(rets)[j_]))))]

    oldf = reg.contracts["biobalm.trappist_core.compute_fixed_point_reduced_STG_async"]
    reg.add(Contract(
        "biobalm.trappist_core.compute_fixed_point_reduced_STG_async",
        params=oldf.params, defaults=oldf.defaults, custom_apply=oldf.custom_apply, properties=("C09", "C08", "C19"),
        body_params=[("petri_net", P.TPNG), ("retained_set", TSpace), ("on_solution", E._Callback.param(TSpace)),
                     ("ensure_subspace", OptSpace), ("avoid_subspaces", OptLS)],
        requires=[lambda c: _SPEC["wf_net"](types.SimpleNamespace(petri_net=c.petri_net)),
                  lambda c: z3.ForAll([n_], z3.Implies(z3.And(G_.nodes(c.petri_net)[n_], P.is_place(n_)), n_ == P.place(P.pvar(n_), P.ppos(n_)))),
                  lambda c: T.wf_space(c.retained_set),
                  # networkx raises for an unknown node: the retained variables are variables of the net
                  lambda c: z3.ForAll([vr], z3.Implies(c.retained_set[vr] >= 0, G_.nodes(c.petri_net)[src_place(c.retained_set, vr)])),
                  # places are never deleted (they are not successors-only of a place): the net is bipartite
                  lambda c: z3.ForAll([n_, z3.Const("m!rd", P.PNode)], z3.Implies(
                      z3.And(G_.nodes(c.petri_net)[n_], G_.nodes(c.petri_net)[z3.Const("m!rd", P.PNode)], G_.edge(c.petri_net)[n_][z3.Const("m!rd", P.PNode)]),
                      P.is_place(n_) != P.is_place(z3.Const("m!rd", P.PNode)))),
                  lambda c: z3.Implies(z3.Not(OptSpace.is_none(c.ensure_subspace)), T.wf_space(OptSpace.val(c.ensure_subspace))),
                  lambda c: z3.Implies(z3.Not(OptLS.is_none(c.avoid_subspaces)), elems_wf(OptLS.val(c.avoid_subspaces)))],
        ensures=[(nm, (lambda k: (lambda c: dict(fp_post(c))[k]))(nm)) for nm in ["program." + x for x in FN] +
                 ["callback_fed_the_decoded_models_in_order_until_false"]],
        raises={"RuntimeError": []}, may_raise={"RuntimeError": {}},
        axioms=P.AX_PLACE + A.AX_MEMNAME + A.AX_SORTED + A.AX_NAMESETS,
        lemmas=[("L9.models_of_the_deadlock_program", lambda c: wf_models(A.EnumModels(c.ctl)))],
        local_types={"ctl": A.TCtl, "reduced_petri_net": P.TPNG, "source_place": P.TPNode, "b_i": TInt}, merge_ifs=True,
        loops={0: LoopContract("for node in retained_set.keys()", outer_inv),
               1: LoopContract("for trans in deleted_transitions", inner_inv),
               2: LoopContract("for model in iterator", fp_loop_inv, lemmas=[("L9.models_of_the_deadlock_program", lambda c: wf_models(A.EnumModels(c.ctl)))])},
        note="BODY verified: the net is reduced by exactly the transitions that leave a retained value, the deadlock program of the reduced net "
             "is built for its own variables, and the callback protocol is followed; call sites use the call-site view (enumeration of ReducedSol)"))


    # ------------------------------------------------------------------ trappist_async on a BooleanNetwork (second contract of the same function)
    from pyvc.externals_aeon import TNetObj
    from .deps import pn_graph

    def spec_ns_bn(c, ctl):
        g = pn_graph(T.PNOfNet(c.network))
        src = z3.If(OptLN.is_none(c.optimize_source_variables), A.SortedNames(A.SrcSetG(g)), OptLN.val(c.optimize_source_variables))
        return types.SimpleNamespace(variables=A.VarNamesOf(c.network), petri_net=g, problem=c.problem, reverse_time=c.reverse_time,
                                     ensure_subspace=c.ensure_subspace, avoid_subspaces=c.avoid_subspaces,
                                     optimize_source_variables=OptLN.some(src), result=ctl)

    def post_bn(c):
        ctl = solved(c)
        return [("program." + nm, g) for nm, g in _SPEC["trap_program"](spec_ns_bn(c, ctl)) if nm in names] + [
            ("callback_fed_the_decoded_models_in_order_until_false",
             protocol(c, c.on_solution__args, c.on_solution__rets, A.EnumModels(ctl), decode_trap))]

    reg.add(Contract(
        "biobalm.trappist_core.trappist_async#BooleanNetwork",
        params=[("network", TNetObj), ("on_solution", E._Callback.param(TSpace)), ("problem", TInt), ("reverse_time", TBool),
                ("ensure_subspace", OptSpace), ("avoid_subspaces", OptLS), ("optimize_source_variables", OptLN)],
        defaults=old.defaults, properties=("C09", "C17"),
        requires=[lambda c: z3.And(0 <= c.problem, c.problem <= 2),
                  lambda c: z3.Implies(z3.Not(OptSpace.is_none(c.ensure_subspace)), T.wf_space(OptSpace.val(c.ensure_subspace))),
                  lambda c: z3.Implies(z3.Not(OptLS.is_none(c.avoid_subspaces)), elems_wf(OptLS.val(c.avoid_subspaces)))],
        ensures=[(nm, (lambda k: (lambda c: dict(post_bn(c))[k]))(nm)) for nm in ["program." + x for x in names] +
                 ["callback_fed_the_decoded_models_in_order_until_false"]],
        raises={"RuntimeError": []}, may_raise={"RuntimeError": {}},
        axioms=P.AX_PLACE + A.AX_MEMNAME + A.AX_SORTED + A.AX_NAMESETS + A.AX_VARNAMES,
        lemmas=[("L9.models_of_the_trap_program", lambda c: wf_models(A.EnumModels(c.ctl)))],
        local_types={"ctl": A.TCtl, "variables": A.LNm}, merge_ifs=True,
        loops={0: LoopContract("for model in iterator", loop_inv, lemmas=[("L9.models_of_the_trap_program", lambda c: wf_models(A.EnumModels(c.ctl)))])},
        note="the same function for a BooleanNetwork argument: the network is translated (network_to_petrinet, assumed) and the program is "
             "built for the network's own variable list and the translated net"))
