"""Sidecar contracts (DESIGN.md Appendix A). One module per repository module."""
def install_all(reg):
    from pyvc import sdmodel
    sdmodel.install(reg)
    from . import space_utils, deps, succession_diagram
    space_utils.install(reg)
    deps.install(reg)
    succession_diagram.install(reg)
    from . import algorithms
    algorithms.install(reg)
