"""Sidecar contracts (DESIGN.md Appendix A). One module per repository module."""
def install_all(reg):
    from pyvc import sdmodel, pnmodel, strmodel, vsmodel, itermodel, aspmodel
    strmodel.install(reg)
    sdmodel.install(reg)
    pnmodel.install(reg)
    vsmodel.install(reg)
    itermodel.install(reg)
    aspmodel.install(reg)
    from . import space_utils, deps, succession_diagram, algorithms, petri_net, trappist
    space_utils.install(reg)
    deps.install(reg)
    petri_net.install(reg)
    trappist.install(reg)
    trappist.install_models(reg)
    trappist.install_programs(reg)
    succession_diagram.install(reg)
    succession_diagram._install_skip(reg)
    succession_diagram._install_skip2(reg)
    succession_diagram._install_skip3(reg)
    succession_diagram._install_skip4(reg)
    succession_diagram._install_compare(reg)
    succession_diagram._install_state(reg)
    from . import attractors
    attractors.install(reg)
    attractors.install_sets(reg)
    from . import candidates
    candidates.install(reg)
    candidates.install_helpers(reg)
    candidates.install_helpers2(reg)
    from . import symbolic
    symbolic.install(reg)
    from . import control
    control.install(reg)
    control.install_succession(reg)
    algorithms.install(reg)
    algorithms.install_skipnode(reg)
    algorithms.install_target(reg)
    algorithms.install_dfs(reg)
