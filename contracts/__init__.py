"""Sidecar contracts (DESIGN.md Appendix A). One module per repository module."""
def install_all(reg):
    from pyvc import sdmodel, pnmodel, strmodel
    strmodel.install(reg)
    sdmodel.install(reg)
    pnmodel.install(reg)
    from . import space_utils, deps, succession_diagram
    space_utils.install(reg)
    deps.install(reg)
    succession_diagram.install(reg)
    from . import algorithms, petri_net, trappist
    trappist.install(reg)
    trappist.install_models(reg)
    algorithms.install(reg)
    petri_net.install(reg)
