"""Sidecar contracts (DESIGN.md Appendix A). One module per repository module."""
def install_all(reg):
    from pyvc import sdmodel, pnmodel, strmodel, vsmodel, itermodel, aspmodel
    strmodel.install(reg)
    sdmodel.install(reg)
    pnmodel.install(reg)
    vsmodel.install(reg)
    itermodel.install(reg)
    aspmodel.install(reg)
    from . import space_utils, deps, succession_diagram, algorithms, petri_net, trappist
    space_utils.install(reg)
    space_utils.install_drivers(reg)
    deps.install(reg)
    petri_net.install(reg)
    petri_net.install_names(reg)
    from . import petri_build
    petri_build.install(reg)
    petri_build.install_network(reg)
    petri_build.install_generator(reg)
    from . import percolate_net
    percolate_net.install(reg)
    percolate_net.install_percolate(reg)
    from . import sanitize
    sanitize.install(reg)
    trappist.install(reg)
    trappist.install_models(reg)
    trappist.install_programs(reg)
    trappist.install_async_bodies(reg)
    succession_diagram.install(reg)
    succession_diagram._install_skip(reg)
    succession_diagram._install_skip2(reg)
    succession_diagram._install_skip3(reg)
    succession_diagram._install_skip4(reg)
    succession_diagram._install_compare(reg)
    succession_diagram._install_state(reg)
    from . import attractors
    attractors.install(reg)
    attractors.install_sets(reg)
    attractors.install_mark_expanded(reg)
    from . import candidates
    candidates.install(reg)
    candidates.install_helpers(reg)
    candidates.install_helpers2(reg)
    candidates.install_edge_accessors(reg)
    candidates.install_nfvs(reg)
    candidates.install_avoid_list(reg)
    from . import symbolic
    symbolic.install(reg)
    symbolic.install_structure(reg)
    symbolic.install_fallback_structure(reg)
    from . import control
    control.install(reg)
    control.install_succession(reg)
    control.install_control(reg)
    algorithms.install(reg)
    algorithms.install_skipnode(reg)
    algorithms.install_target(reg)
    algorithms.install_dfs(reg)
    algorithms.install_minimal(reg)
    algorithms.install_attractor_seeds(reg)
    algorithms.install_wrappers(reg)
    algorithms.install_reports(reg)
    petri_build.install_source_nodes(reg)      # last: its declarations must not disturb the term numbering of the proofs above

    _extra_tags(reg)


# Properties that are relational (two runs / two presentations / two networks) are decided through the FUNCTIONAL
# postconditions of the contracts below: the postcondition determines the resulting abstract diagram uniquely from the
# abstract network and the entry diagram, so two runs (C19), two presentations with the same semantics and variable order
# (C17), or the sub-diagram below a node and the diagram of the restricted network (C18, with lemma L14) agree.
EXTRA_TAGS = {
    "biobalm.succession_diagram.SuccessionDiagram.__init__": ("C18", "C19"),
    "biobalm.succession_diagram.SuccessionDiagram._ensure_node": ("C18", "C19"),
    "biobalm.succession_diagram.SuccessionDiagram._expand_one_node": ("C18", "C19"),
    "biobalm.succession_diagram.SuccessionDiagram.node_successors": ("C18", "C19"),
    "biobalm._sd_algorithms.expand_bfs.expand_bfs": ("C18", "C19"),
    "biobalm._sd_algorithms.expand_dfs.expand_dfs": ("C19",),
    "biobalm.space_utils.percolate_space_strict": ("C17",),
    "biobalm.symbolic_utils.function_eval": ("C17",),
    "biobalm.space_utils.percolate_space": ("C17",),
    "biobalm.space_utils.space_unique_key": ("C19",),
    "biobalm.succession_diagram.SuccessionDiagram.is_subgraph": ("C17",),
    "biobalm.succession_diagram.SuccessionDiagram.is_isomorphic": ("C17",),
    "biobalm.succession_diagram.SuccessionDiagram.find_node": ("C17",),
    "biobalm.succession_diagram.SuccessionDiagram._update_node_depth": ("C13",),
    "biobalm.trappist_core._create_clingo_constraints": ("C17", "C19"),
    "biobalm.trappist_core._create_clingo_fixed_point_constraints": ("C17", "C19"),
}


def _extra_tags(reg):
    for q, tags in EXTRA_TAGS.items():
        c = reg.contracts[q]
        c.properties = tuple(c.properties) + tuple(t for t in tags if t not in c.properties)
