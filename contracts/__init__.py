"""Sidecar contracts (DESIGN.md Appendix A). One module per repository module."""
def install_all(reg):
    from . import space_utils
    space_utils.install(reg)
