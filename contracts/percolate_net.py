"""Contracts for the network-reduction half of C10: biobalm.space_utils.restrict_expression and percolate_network (second contract
`#structure`). Sidecar; no repository code.

AEON objects are opaque; what is assumed about them (AX_EXPR, listed as trusted): an expression denotes a Boolean function of total valuations
that depends only on its support set; eval_expression / to_expression / UpdateFunction(bn, e) / as_expression preserve that function;
Bdd.r_restrict(space) substitutes the fixed values; set_update_function replaces one update function and nothing else."""
import z3
from pyvc.vtypes import *
from pyvc.contract import Contract, LoopContract
from pyvc.registry import ObjModel
from pyvc import theory as T
from pyvc import engine as ENG
from pyvc.externals_aeon import TBdd, TNetObj, TGraph, TCtxObj, bn_net_of, net_of, restrict_bdd, bddvar, graph_of
from . import petri_build as PB
from pyvc import aspmodel as _A

TExpr = TObj("BooleanExpression")
TBvsU = TObj("BddVariableSetOrSymbolicContext")          # the union type of restrict_expression's third parameter
OptU = TOpt(TBvsU)
TValN = z3.ArraySort(Name, B)                             # a total valuation of the network variables (by name)
SN = TSet(TName)

ExprSem = z3.Function("expr_sem", TExpr.sort(), TValN, B)
ExprSupport = z3.Function("expr_support_set", TExpr.sort(), z3.ArraySort(Name, B))
SemB = z3.Function("bdd_sem_named", T.Bdd, TValN, B)
EvalExpr = z3.Function("bvs_eval_expression", TBvsU.sort(), TExpr.sort(), T.Bdd)
ToExpr = z3.Function("bdd_to_expression", T.Bdd, TExpr.sort())
Knows = z3.Function("bvs_knows_name", TBvsU.sort(), Name, B)
IsSymCtx = z3.Function("is_symbolic_context", TBvsU.sort(), B)
AsBvs = z3.Function("as_bdd_variable_set", TBvsU.sort(), TBvsU.sort())     # SymbolicContext.bdd_variable_set()
MkBvs = z3.Function("BddVariableSet", TList(TName).sort(), TBvsU.sort())
OfBvs = z3.Function("bvs_as_union", PB.TBvs.sort(), TBvsU.sort())
Override = z3.Function("override_valuation", TValN, T.SpaceS, TValN)         # x with the values fixed by a space written over it

_e, _x, _y, _s = z3.Const("e!pe", TExpr.sort()), z3.Const("x!pe", TValN), z3.Const("y!pe", TValN), z3.Const("s!pe", T.SpaceS)
_b, _u, _k = z3.Const("b!pe", T.Bdd), z3.Const("u!pe", TBvsU.sort()), z3.Const("k!pe", Name)
_l = z3.Const("l!pe", TList(TName).sort())
_a = z3.Int("a!pe")
LNm = TList(TName)


def in_space(x, s):
    return z3.ForAll([_k], z3.Implies(s[_k] >= 0, x[_k] == (s[_k] == 1)))


def agree_on(x, y, pred):
    return z3.ForAll([_k], z3.Implies(pred(_k), x[_k] == y[_k]))


AX_EXPR = [
    z3.ForAll([_x, _s, _k], Override(_x, _s)[_k] == z3.If(_s[_k] >= 0, _s[_k] == 1, _x[_k]), patterns=[Override(_x, _s)[_k]]),
    # an expression depends only on its support
    z3.ForAll([_e, _x, _y], z3.Implies(agree_on(_x, _y, lambda k: ExprSupport(_e)[k]), ExprSem(_e, _x) == ExprSem(_e, _y)),
              patterns=[z3.MultiPattern(ExprSem(_e, _x), ExprSem(_e, _y))]),
    # conversions keep the function (for a variable set that knows the variables of the expression)
    z3.ForAll([_u, _e, _x], z3.Implies(z3.ForAll([_k], z3.Implies(ExprSupport(_e)[_k], Knows(_u, _k))), SemB(EvalExpr(_u, _e), _x) == ExprSem(_e, _x)),
              patterns=[SemB(EvalExpr(_u, _e), _x)]),
    z3.ForAll([_u, _e, _k], bddvar(EvalExpr(_u, _e), _k) == Knows(_u, _k), patterns=[bddvar(EvalExpr(_u, _e), _k)]),
    z3.ForAll([_b, _x], ExprSem(ToExpr(_b), _x) == SemB(_b, _x), patterns=[ExprSem(ToExpr(_b), _x)]),
    # restriction substitutes the fixed values
    z3.ForAll([_b, _s, _x], SemB(restrict_bdd(_b, _s), _x) == SemB(_b, Override(_x, _s)), patterns=[SemB(restrict_bdd(_b, _s), _x)]),
    # variable sets
    z3.ForAll([_l, _k], Knows(MkBvs(_l), _k) == _A.MemName(_l, _k), patterns=[Knows(MkBvs(_l), _k)]),
    z3.ForAll([_l], z3.Not(IsSymCtx(MkBvs(_l))), patterns=[MkBvs(_l)]),
    z3.ForAll([_u, _k], z3.And(Knows(AsBvs(_u), _k) == Knows(_u, _k), z3.Not(IsSymCtx(AsBvs(_u)))), patterns=[Knows(AsBvs(_u), _k)]),
    z3.ForAll([_u, _e], EvalExpr(AsBvs(_u), _e) == EvalExpr(_u, _e), patterns=[EvalExpr(AsBvs(_u), _e)]),
]
TRUSTED = {
    "aeon.BooleanExpression / BddVariableSet / Bdd (restrict_expression)":
        "support_set() is the set of variables the expression depends on; eval_expression and to_expression preserve the denoted function; "
        "r_restrict(space) substitutes the fixed values (names outside the variable set raise IndexError); BddVariableSet(names) knows exactly those names; "
        "SymbolicContext.bdd_variable_set() knows the same names (AX_EXPR)",
}


class ExprModel(ObjModel):
    def method(self, eng, st, v, meth, args, kw, node, recv_expr=None):
        if meth == "support_set" and not args:
            return Val(SN, ExprSupport(v.t))
        raise OutOfSubset(f"BooleanExpression.{meth}")


class UnionModel(ObjModel):
    def method(self, eng, st, v, meth, args, kw, node, recv_expr=None):
        if meth == "bdd_variable_set" and not args:
            return Val(TBvsU, AsBvs(v.t))
        if meth == "eval_expression" and len(args) == 1 and args[0].ty == TExpr:
            return Val(TBdd, EvalExpr(v.t, args[0].t))
        raise OutOfSubset(f"BddVariableSet|SymbolicContext.{meth}")


def _pats(r, *ps):
    # explicit triggers only where the result is a plain constant (call sites); in the body the result is a compound term
    return dict(patterns=list(ps)) if z3.is_const(r) and r.decl().kind() == z3.Z3_OP_UNINTERPRETED else {}


def same_on_space(r, e, s):
    """r denotes the same function as e on the valuations inside s"""
    return z3.ForAll([_x], z3.Implies(in_space(_x, s), ExprSem(r, _x) == ExprSem(e, _x)), **_pats(r, ExprSem(r, _x)))


def independent_of_fixed(r, s):
    """r does not depend on the variables s fixes"""
    return z3.ForAll([_x, _y], z3.Implies(agree_on(_x, _y, lambda k: s[k] < 0), ExprSem(r, _x) == ExprSem(r, _y)),
                     **_pats(r, z3.MultiPattern(ExprSem(r, _x), ExprSem(r, _y))))


def install(reg):
    reg.extra_trusted.append(TRUSTED)
    reg.add_model(lambda v: v.ty == TExpr, ExprModel())
    reg.add_model(lambda v: v.ty == TBvsU, UnionModel())
    prev = [(p, m) for p, m in reg.models]

    def base_model(v):
        for p, m in prev:
            if p(v):
                return m
        return None

    class BddToExpr(ObjModel):
        def method(self, eng, st, v, meth, args, kw, node, recv_expr=None):
            if meth == "to_expression" and not args:
                return Val(TExpr, ToExpr(v.t))
            return base_model(v).method(eng, st, v, meth, args, kw, node, recv_expr)
    reg.models = [(lambda v: v.ty == TBdd, BddToExpr())] + reg.models

    def isinst(eng, st, v, tnode):
        import ast
        if v.ty == TBvsU and isinstance(tnode, ast.Name) and tnode.id == "SymbolicContext":
            return vbool(IsSymCtx(v.t))
        return None
    reg.add_hook("isinstance", isinst)

    def coerce(eng, st, v, ty):
        if v.ty == PB.TBvs and ty == TBvsU:
            return Val(TBvsU, OfBvs(v.t))
        if v.ty == PB.TBvs and ty == OptU:
            return Val(OptU, OptU.some(OfBvs(v.t)))
        return None
    reg.add_hook("coerce", coerce)

    def mk_bvs(eng, st, node):
        a = [eng.ev(x, st) for x in node.args]
        if len(a) != 1 or a[0].ty != LNm:
            raise OutOfSubset("BddVariableSet(<not a list of names>)")
        return Val(TBvsU, MkBvs(a[0].t))
    reg.global_calls["BddVariableSet"] = mk_bvs

    def knows_support(c):
        """a supplied context knows every variable of the expression (otherwise AEON raises)"""
        return z3.Implies(z3.Not(OptU.is_none(c.symbolic_context)),
                          z3.ForAll([_k], z3.Implies(ExprSupport(c.expression)[_k], Knows(OptU.val(c.symbolic_context), _k))))

    def card_zero_instance(c):
        """def.card(zero) for the filtered space, with the membership test written out (the comprehension is a lambda term)"""
        S = c.st.env["space"].t
        if c.result is None:
            raise AttributeError("only at exits")
        return (T.card(S) == 0) == z3.ForAll([_k], z3.simplify(z3.Select(S, _k)) < 0)

    reg.add(Contract(
        "biobalm.space_utils.restrict_expression",
        params=[("expression", TExpr), ("space", TSpace), ("symbolic_context", OptU)], defaults={"symbolic_context": None}, result_type=TExpr,
        properties=("C10", "C11"),
        requires=[knows_support, lambda c: T.wf_space(c.space)],
        ensures=[("step.filtered_space", lambda c: z3.ForAll([_k], c.st.env["space"].t[_k] == z3.If(
                     z3.And(c.space[_k] >= 0, ExprSupport(c.expression)[_k]), c.space[_k], -1))),
                 ("step.early_return_only_when_no_support_variable_is_fixed", lambda c: z3.Implies(
                     T.card(c.st.env["space"].t) == 0, z3.ForAll([_k], z3.Not(z3.And(c.space[_k] >= 0, ExprSupport(c.expression)[_k]))))),
                 ("same_function_on_the_space", lambda c: same_on_space(c.result, c.expression, c.space)),
                 ("independent_of_the_fixed_variables", lambda c: independent_of_fixed(c.result, c.space))],
        lemmas=[("def.card(zero)", card_zero_instance)],
        axioms=AX_EXPR + [T.AX_CARD0] + _A.AX_SORTED + _A.AX_MEMNAME, local_types={"variables": SN},
        note="only the variables of the expression are handed to Bdd.r_restrict (names outside the variable set would raise)"))


# ====================================================================== percolate_network (second contract `#structure`)
from pyvc.externals_aeon import ctx_of, _BnVars
TUpd, TBnVar, LBV = PB.TUpd, PB.TBnVar, PB.LBV
OptUpd = TOpt(TUpd)
GetFn = z3.Function("bn_get_update_function", TNetObj.sort(), TBnVar.sort(), OptUpd.sort())
SetFn = z3.Function("bn_set_update_function", TNetObj.sort(), TBnVar.sort(), OptUpd.sort(), TNetObj.sort())
ConstFn = z3.Function("UpdateFunction_mk_const", I, TUpd.sort())
FnOfExpr = z3.Function("UpdateFunction_of_expression", TExpr.sort(), TUpd.sort())
ExprOf = z3.Function("UpdateFunction_as_expression", TUpd.sort(), TExpr.sort())
InferGraph = z3.Function("bn_infer_valid_graph", TNetObj.sort(), TNetObj.sort())
InlineConst = z3.Function("bn_inline_constants", TNetObj.sort(), TNetObj.sort())
_nt, _id, _id2, _of = z3.Const("nt!pn", TNetObj.sort()), z3.Const("id!pn", TBnVar.sort()), z3.Const("id2!pn", TBnVar.sort()), z3.Const("of!pn", OptUpd.sort())
_ee = z3.Const("ee!pn", TExpr.sort())
_iv = z3.Int("iv!pn")
AX_BN_EDIT = [
    z3.ForAll([_nt, _id, _of, _id2], GetFn(SetFn(_nt, _id, _of), _id2) == z3.If(_id2 == _id, _of, GetFn(_nt, _id2)), patterns=[GetFn(SetFn(_nt, _id, _of), _id2)]),
    # editing update functions keeps the variables and their names
    z3.ForAll([_nt, _id, _of], z3.And(PB.BnVarList(SetFn(_nt, _id, _of)) == PB.BnVarList(_nt)), patterns=[SetFn(_nt, _id, _of)]),
    z3.ForAll([_nt, _id, _of, _id2], PB.BnName(SetFn(_nt, _id, _of), _id2) == PB.BnName(_nt, _id2), patterns=[PB.BnName(SetFn(_nt, _id, _of), _id2)]),
    z3.ForAll([_nt, _id], z3.And(OptUpd.is_none(GetFn(_nt, _id)) == z3.Not(PB.HasFn(_nt, _id)),
                                 z3.Implies(PB.HasFn(_nt, _id), OptUpd.val(GetFn(_nt, _id)) == PB.UpdFn(_nt, _id))), patterns=[GetFn(_nt, _id)]),
    z3.ForAll([_ee], ExprOf(FnOfExpr(_ee)) == _ee, patterns=[FnOfExpr(_ee)]),
    # a constant function
    z3.ForAll([_iv, _x], ExprSem(ExprOf(ConstFn(_iv)), _x) == (_iv != 0), patterns=[ExprSem(ExprOf(ConstFn(_iv)), _x)]),
]
TRUSTED_EDIT = {
    "aeon.BooleanNetwork editing (percolate_network)":
        "copy(bn) is an equal network; set_update_function replaces exactly one update function and keeps variables and names; UpdateFunction(bn, e).as_expression() "
        "is e; UpdateFunction.mk_const(bn, v) is the constant v; infer_valid_graph / inline_constants are opaque functions of the network (AX_BN_EDIT)",
}


def install_percolate(reg):
    reg.extra_trusted.append(TRUSTED_EDIT)
    prev = [(p, m) for p, m in reg.models]

    def base_model(v):
        for p, m in prev:
            if p(v):
                return m
        return None

    class NetEdit(ObjModel):
        def method(self, eng, st, v, meth, args, kw, node, recv_expr=None):
            if meth == "set_update_function" and len(args) == 2 and args[0].ty == TBnVar:
                f = eng.coerce(args[1], OptUpd, st)
                eng.assign(recv_expr, Val(TNetObj, SetFn(v.t, args[0].t, f.t)), st)
                return NONE
            if meth == "infer_valid_graph" and not args:
                return Val(TNetObj, InferGraph(v.t))
            if meth == "inline_constants":
                flags = {k: z3.simplify(eng.truth(x)) for k, x in kw.items()}
                if args or set(flags) != {"infer_constants", "repair_graph"} or not all(z3.is_true(x) for x in flags.values()):
                    raise OutOfSubset("inline_constants with other flags than infer_constants=True, repair_graph=True")
                return Val(TNetObj, InlineConst(v.t))
            return base_model(v).method(eng, st, v, meth, args, kw, node, recv_expr)

    class UpdModel(ObjModel):
        def method(self, eng, st, v, meth, args, kw, node, recv_expr=None):
            if meth == "as_expression" and not args:
                return Val(TExpr, ExprOf(v.t))
            raise OutOfSubset(f"UpdateFunction.{meth}")

    reg.models = [(lambda v: v.ty == TNetObj, NetEdit()), (lambda v: v.ty == TUpd, UpdModel())] + reg.models

    def mk_const(eng, st, node):
        a = [eng.ev(x, st) for x in node.args]
        if len(a) != 2 or a[0].ty != TNetObj or a[1].ty != TInt:
            raise OutOfSubset("UpdateFunction.mk_const(<args>)")
        return Val(TUpd, ConstFn(a[1].t))
    reg.module_calls[("UpdateFunction", "mk_const")] = mk_const

    def upd_ctor(eng, st, node):
        a = [eng.ev(x, st) for x in node.args]
        if len(a) != 2 or a[0].ty != TNetObj or a[1].ty != TExpr:
            raise OutOfSubset("UpdateFunction(<args>)")
        return Val(TUpd, FnOfExpr(a[1].t))
    reg.global_calls["UpdateFunction"] = upd_ctor

    OptG = TOpt(TGraph)

    def the_graph(c):
        return z3.If(OptG.is_none(c.symbolic_network), graph_of(c.bn), OptG.val(c.symbolic_network))

    def perc(c):
        return T.Perc(bn_net_of(c.bn), c.space)

    def expected(c, nb, x):
        """update function of variable id x in the edited network nb"""
        P_, nm = perc(c.old if c.old is not None else c), PB.BnName(c.bn, x)
        f = GetFn(nb, x)
        return z3.If(PB.HasFn(c.bn, x),
                     z3.And(z3.Not(OptUpd.is_none(f)),
                            same_on_space(ExprOf(OptUpd.val(f)), ExprOf(PB.UpdFn(c.bn, x)), P_),
                            independent_of_fixed(ExprOf(OptUpd.val(f)), P_)),
                     z3.If(P_[nm] >= 0, f == OptUpd.some(ConstFn(P_[nm])), OptUpd.is_none(f)))

    def inv0(c):
        L = PB.BnVarList(c.bn)
        nb = c.new_bn
        return [("coll", c.coll == L), ("index", c.i >= 0), ("space_is_percolated", c.st.env["space"].t == perc(c.old)),
                ("same_variables", z3.And(PB.BnVarList(nb) == L, z3.ForAll([_id], PB.BnName(nb, _id) == PB.BnName(c.bn, _id)))),
                ("visited_functions_percolated", z3.ForAll([_a], z3.Implies(z3.And(0 <= _a, _a < c.i), expected(c, nb, LBV.at(L)[_a])))),
                ("others_untouched", z3.ForAll([_id], z3.Implies(z3.Not(z3.Exists([_a], z3.And(0 <= _a, _a < c.i, LBV.at(L)[_a] == _id))),
                                                              GetFn(nb, _id) == GetFn(c.bn, _id))))]

    def post(c):
        L = PB.BnVarList(c.bn)
        nb = c.exit_local(0, "new_bn")
        return z3.And(
            z3.ForAll([_a], z3.Implies(z3.And(0 <= _a, _a < LBV.len(L)), expected(c, nb, LBV.at(L)[_a]))),
            c.result == z3.If(c.remove_constants, InlineConst(InferGraph(nb)), InferGraph(nb)))

    reg.add(Contract(
        "biobalm.space_utils.percolate_network#structure",
        params=[("bn", TNetObj), ("space", TSpace), ("symbolic_network", OptG), ("remove_constants", TBool)],
        defaults={"symbolic_network": None, "remove_constants": False}, result_type=TNetObj,
        properties=("C10",),
        requires=[lambda c: z3.ForAll([_k], z3.Implies(c.space[_k] >= 0, T.isvar(bn_net_of(c.bn), _k))),
                  lambda c: z3.Implies(z3.Not(OptG.is_none(c.symbolic_network)), net_of(OptG.val(c.symbolic_network)) == bn_net_of(c.bn)),
                  lambda c: z3.ForAll([_id], z3.Implies(z3.Not(PB.HasFn(c.bn, _id)), PB.PredCount(c.bn, _id) == 0)),
                  # the variable set of the graph's context knows the variables of every update function (same network)
                  lambda c: z3.ForAll([_id, _k], z3.Implies(z3.And(PB.HasFn(c.bn, _id), ExprSupport(ExprOf(PB.UpdFn(c.bn, _id)))[_k]),
                                                           Knows(OfBvs(PB.BvsOf(ctx_of(the_graph(c)))), _k)))],
        ensures=[("every_update_function_restricted_to_the_percolated_space_then_graph_inferred_and_constants_inlined", post)],
        axioms=AX_EXPR + AX_BN_EDIT + PB.AX_AEON_NET, local_types={"new_bn": TNetObj, "name": TName},
        loops={0: LoopContract("for var in bn.variables()", inv0)},
        note="free inputs fixed by the percolated space become constants; every other update function is replaced by an expression that agrees with it on the "
             "percolated space and no longer depends on the fixed variables; what infer_valid_graph / inline_constants do is AEON's"))
