"""Contracts for the BUILDING half of biobalm/petri_net_translation.py (C10): _create_transitions, network_to_petrinet (second contract
`#structure`) and optimized_recursive_dnf_generator. Sidecar; no repository code.

The graph a network is translated to is characterised syntactically: two places per variable, and for every variable with an update function f
one transition per implicant of the cover Dnf(f & !x) (up) and Dnf(!f & x) (down), wired to the places of the changed variable (consumes one,
produces the other) and, as a read arc in both directions, to the place of every other literal of the implicant. That the cover is exact
(its disjunction is the BDD) is the contract of the generator; that such a net encodes the asynchronous dynamics is then lemma L4 (cited)."""
import z3
from pyvc.vtypes import *
from pyvc.contract import Contract, LoopContract
from pyvc.registry import ObjModel
from pyvc import theory as T
from pyvc import pnmodel as P
from pyvc import aspmodel as A
from pyvc import engine as ENG
from pyvc.externals_aeon import TBdd

G = P.PNGraph
TBddVar = TObj("BddVariable")
TBvs = TObj("BddVariableSet")
TImpl = TDict(TBddVar, TBool)              # BddPartialValuation: BDD variable -> required value
LImpl = TList(TImpl)
TPlaces = TDict(TName, TTuple(P.TPNode, P.TPNode))
PT = TTuple(P.TPNode, P.TPNode)

DnfOf = z3.Function("DnfOf", T.Bdd, LImpl.sort())                    # the clause list optimized_recursive_dnf_generator yields for a BDD
NameOf = z3.Function("bddvar_name", TBvs.sort(), TBddVar.sort(), Name)   # BddVariableSet.get_variable_name

n, m = z3.Const("n!pb", P.PNode), z3.Const("m!pb", P.PNode)
w = z3.Const("w!pb", TBddVar.sort())
v_ = z3.Const("v!pb", Name)
b_ = z3.Bool("b!pb")
i_, j_ = z3.Int("i!pb"), z3.Int("j!pb")

# attributes are functions of the node NAME (definitional convention of the model; add_node obliges the code to write exactly these)
AX_ATTR = [
    z3.ForAll([v_, b_, i_], z3.And(A.kind_of(P.trname(v_, b_, i_)) == 1, A.change_of(P.trname(v_, b_, i_)) == TOpt(TName).some(v_),
                                    A.up_of(P.trname(v_, b_, i_)) == b_), patterns=[P.trname(v_, b_, i_)]),
    z3.ForAll([v_, b_], z3.And(A.kind_of(P.place(v_, b_)) == 0, TOpt(TName).is_none(A.change_of(P.place(v_, b_)))), patterns=[P.place(v_, b_)]),
]
AXIOMS = P.AX_PLACE + P.AX_TRNAME + AX_ATTR


def E(g, a, b):
    return z3.And(G.nodes(g)[a], G.nodes(g)[b], G.edge(g)[a][b])


class BvsModel(ObjModel):
    def method(self, eng, st, v, meth, args, kw, node, recv_expr=None):
        if meth == "get_variable_name" and len(args) == 1 and args[0].ty == TBddVar:
            return Val(TName, NameOf(v.t, args[0].t))
        raise OutOfSubset(f"BddVariableSet.{meth}")


def places_ok(pl):
    """places[name] = (negative place, positive place) of that name"""
    return z3.ForAll([v_], z3.Implies(TPlaces.dom(pl)[v_], TPlaces.vals(pl)[v_] == PT.mk(P.place(v_, False), P.place(v_, True))),
                     patterns=[TPlaces.vals(pl)[v_]])


def lit_place(ctx, imp, x):
    """the place a literal of an implicant reads"""
    return P.place(NameOf(ctx, x), TImpl.vals(imp)[x])


def tr_edges(ctx, var, up, t, imp, a, b, which=None):
    """edges of transition t built from implicant imp (literals restricted by `which`, default all)"""
    src, dst = P.place(var, z3.Not(up)), P.place(var, up)
    sel = (lambda x: z3.BoolVal(True)) if which is None else which
    return z3.Or(z3.And(a == src, b == t), z3.And(a == t, b == dst),
                 z3.Exists([w], z3.And(TImpl.dom(imp)[w], sel(w), NameOf(ctx, w) != var,
                                       z3.Or(z3.And(a == lit_place(ctx, imp, w), b == t), z3.And(a == t, b == lit_place(ctx, imp, w))))))


def added_nodes(var, up, k, x):
    """x is the transition of one of the first k implicants (transition j, 1 <= j <= k, belongs to implicant j - 1)"""
    return z3.Exists([j_], z3.And(1 <= j_, j_ <= k, x == P.trname(var, up, j_)))


def added_edges(ctx, var, up, L, k, a, b):
    return z3.Exists([j_], z3.And(1 <= j_, j_ <= k, tr_edges(ctx, var, up, P.trname(var, up, j_), LImpl.at(L)[j_ - 1], a, b)))


def grown_nodes(g, g0, var, up, k):
    return z3.ForAll([n], G.nodes(g)[n] == z3.Or(G.nodes(g0)[n], added_nodes(var, up, k, n)))


def grown_edges(g, g0, ctx, var, up, L, k):
    return z3.ForAll([n, m], E(g, n, m) == z3.Or(E(g0, n, m), added_edges(ctx, var, up, L, k, n, m)))


def grown(g, g0, ctx, var, up, L, k):
    """g is g0 plus the transitions of the first k implicants of L"""
    return z3.And(grown_nodes(g, g0, var, up, k), grown_edges(g, g0, ctx, var, up, L, k))


def literal_places_present(g, ctx, pl, L):
    return z3.ForAll([j_, w], z3.Implies(z3.And(0 <= j_, j_ < LImpl.len(L), TImpl.dom(LImpl.at(L)[j_])[w]), z3.And(
        TPlaces.dom(pl)[NameOf(ctx, w)], G.nodes(g)[P.place(NameOf(ctx, w), True)], G.nodes(g)[P.place(NameOf(ctx, w), False)])))


def install(reg):
    reg.add_model(lambda v: v.ty == TBvs, BvsModel())
    reg.globals["DEBUG"] = lambda eng, st: vbool(z3.Bool("petri_net_translation.DEBUG"))

    # ---- the clause generator (call sites): a deterministic function of the BDD
    reg.add(Contract(
        "biobalm.petri_net_translation.optimized_recursive_dnf_generator", params=[("bdd", TBdd)], result_type=LImpl, trusted=True,
        properties=("C10",),
        ensures=[("is_the_clause_list_of_the_bdd", lambda c: z3.And(c.result == DnfOf(c.bdd), LImpl.len(c.result) >= 0))],
        note="ASSUMED at call sites: the generator is a function of the BDD (DnfOf names the list it yields); that the list is an exact cover is "
             "the body contract `#cover`"))

    def pre(c):
        L = DnfOf(c.implicant_bdd)
        return [places_ok(c.places), TPlaces.dom(c.places)[c.var_name],
                G.nodes(c.pn)[P.place(c.var_name, True)], G.nodes(c.pn)[P.place(c.var_name, False)],
                literal_places_present(c.pn, c.ctx, c.places, L)]

    def inv0(c):
        g, g0, L = c.pn, c.old.pn, DnfOf(c.implicant_bdd)
        return [("coll", c.coll == L), ("index", z3.And(0 <= c.i, c.total == c.i)),
                ("direction", z3.BoolVal(True)),
                ("transitions_of_the_first_implicants_added", grown_nodes(g, g0, c.var_name, c.go_up, c.i)),
                ("wired_to_the_places_of_their_literals", grown_edges(g, g0, c.ctx, c.var_name, c.go_up, L, c.i))]

    def inv1(c):
        g, gh = c.pn, c.at_head(0, "pn")
        t = c.t_name
        o = c.outer(0)
        imp = LImpl.at(DnfOf(c.implicant_bdd))[o["i"]]
        return [("this_transition", z3.And(t == P.trname(c.var_name, c.go_up, o["i"] + 1), c.implicant == imp, c.t_id == o["i"])),
                ("nodes", z3.ForAll([n], G.nodes(g)[n] == z3.Or(G.nodes(gh)[n], n == t))),
                ("edges_of_the_visited_literals", z3.ForAll([n, m], E(g, n, m) == z3.Or(
                    E(gh, n, m), tr_edges(c.ctx, c.var_name, c.go_up, t, imp, n, m, which=lambda x: c.visited[x]))))]

    reg.add(Contract(
        "biobalm.petri_net_translation._create_transitions",
        params=[("pn", P.TPNG), ("ctx", TBvs), ("places", TPlaces), ("var_name", TName), ("implicant_bdd", TBdd), ("go_up", TBool)],
        properties=("C10",), modifies={"pn": True},
        requires=[(lambda k: (lambda c: pre(c)[k]))(k) for k in range(5)],
        ensures=[("one_transition_per_implicant_wired_to_its_literals", lambda c: grown(
            c.pn, c.old.pn, c.ctx, c.var_name, c.go_up, DnfOf(c.implicant_bdd), LImpl.len(DnfOf(c.implicant_bdd))))],
        axioms=AXIOMS, local_types={"t_name": P.TPNode, "total": TInt},
        loops={0: LoopContract("for t_id, implicant in enumerate(optimized_recursive_dnf_generator(implicant_bdd))", inv0),
               1: LoopContract("for variable, value in implicant.items()", inv1)},
        note="node attributes are checked against the naming convention at every add_node; add_edge end points must exist"))


# ====================================================================== network_to_petrinet (second contract `#structure`)
from pyvc.externals_aeon import TNetObj, TCtxObj, bn_net_of, bdd_not, _BnVars

TBnVar = TObj("BnVariableId")
TUpd = TObj("UpdateFunction")
LBV = TList(TBnVar)
LNm = TList(TName)
BnVarList = z3.Function("bn_variables", TNetObj.sort(), LBV.sort())                 # network.variables()
BnName = z3.Function("bn_variable_name", TNetObj.sort(), TBnVar.sort(), Name)        # network.get_variable_name(id)
HasFn = z3.Function("bn_has_update_function", TNetObj.sort(), TBnVar.sort(), B)
UpdFn = z3.Function("bn_update_function", TNetObj.sort(), TBnVar.sort(), TUpd.sort())
PredCount = z3.Function("bn_predecessor_count", TNetObj.sort(), TBnVar.sort(), I)
CtxOfNet = z3.Function("SymbolicContext", TNetObj.sort(), TCtxObj.sort())
CtxNet = z3.Function("ctx_network", TCtxObj.sort(), T.Net)
BvsOf = z3.Function("ctx_bdd_variable_set", TCtxObj.sort(), TBvs.sort())
MkFn = z3.Function("ctx_mk_update_function", TCtxObj.sort(), TUpd.sort(), T.Bdd)
MkVar = z3.Function("ctx_mk_network_variable", TCtxObj.sort(), TBnVar.sort(), T.Bdd)
bdd_and = z3.Function("bdd_l_and", T.Bdd, T.Bdd, T.Bdd)
BddOf = z3.Function("bdd_of_context", TCtxObj.sort(), T.Bdd, B)

_nt, _cx, _bd, _bd2 = z3.Const("nt!pb", TNetObj.sort()), z3.Const("cx!pb", TCtxObj.sort()), z3.Const("bd!pb", T.Bdd), z3.Const("bd2!pb", T.Bdd)
_id, _uf = z3.Const("id!pb", TBnVar.sort()), z3.Const("uf!pb", TUpd.sort())
_a, _b2 = z3.Int("a!pb"), z3.Int("b2!pb")
AX_AEON_NET = [
    # variables(): every variable of the network exactly once
    z3.ForAll([_nt, _a], z3.Implies(z3.And(0 <= _a, _a < LBV.len(BnVarList(_nt))), T.isvar(bn_net_of(_nt), BnName(_nt, LBV.at(BnVarList(_nt))[_a]))),
              patterns=[LBV.at(BnVarList(_nt))[_a]]),
    z3.ForAll([_nt, _a, _b2], z3.Implies(z3.And(0 <= _a, _a < _b2, _b2 < LBV.len(BnVarList(_nt))),
                                         BnName(_nt, LBV.at(BnVarList(_nt))[_a]) != BnName(_nt, LBV.at(BnVarList(_nt))[_b2])),
              patterns=[z3.MultiPattern(LBV.at(BnVarList(_nt))[_a], LBV.at(BnVarList(_nt))[_b2])]),
    z3.ForAll([_nt], LBV.len(BnVarList(_nt)) >= 0, patterns=[BnVarList(_nt)]),
    z3.ForAll([_nt, v_], z3.Implies(T.isvar(bn_net_of(_nt), v_), z3.Exists([_a], z3.And(0 <= _a, _a < LBV.len(BnVarList(_nt)),
                                                                                        BnName(_nt, LBV.at(BnVarList(_nt))[_a]) == v_))),
              patterns=[T.isvar(bn_net_of(_nt), v_)]),
    # contexts and the BDDs they build
    z3.ForAll([_nt], CtxNet(CtxOfNet(_nt)) == bn_net_of(_nt), patterns=[CtxOfNet(_nt)]),
    z3.ForAll([_cx, _uf], BddOf(_cx, MkFn(_cx, _uf)), patterns=[MkFn(_cx, _uf)]),
    z3.ForAll([_cx, _id], BddOf(_cx, MkVar(_cx, _id)), patterns=[MkVar(_cx, _id)]),
    z3.ForAll([_cx, _bd], z3.Implies(BddOf(_cx, _bd), BddOf(_cx, bdd_not(_bd))), patterns=[BddOf(_cx, bdd_not(_bd)), z3.MultiPattern(bdd_not(_bd), BddOf(_cx, _bd))]),
    z3.ForAll([_cx, _bd, _bd2], z3.Implies(z3.And(BddOf(_cx, _bd), BddOf(_cx, _bd2)), BddOf(_cx, bdd_and(_bd, _bd2))), patterns=[BddOf(_cx, bdd_and(_bd, _bd2)), z3.MultiPattern(bdd_and(_bd, _bd2), BddOf(_cx, _bd))]),
    # the literals of the clauses of such a BDD are variables of the context's network
    z3.ForAll([_cx, _bd, j_, w], z3.Implies(z3.And(BddOf(_cx, _bd), 0 <= j_, j_ < LImpl.len(DnfOf(_bd)), TImpl.dom(LImpl.at(DnfOf(_bd))[j_])[w]),
                                            T.isvar(CtxNet(_cx), NameOf(BvsOf(_cx), w))),
              patterns=[z3.MultiPattern(BddOf(_cx, _bd), TImpl.dom(LImpl.at(DnfOf(_bd))[j_])[w])]),
    z3.ForAll([_bd], LImpl.len(DnfOf(_bd)) >= 0, patterns=[DnfOf(_bd)]),
]
TRUSTED_NET = {
    "aeon.BooleanNetwork methods called with a variable NAME":
        "get_update_function / predecessors / get_variable_name and SymbolicContext.mk_network_variable accept the name of a variable in place of its id and "
        "resolve it to the variable of that name (BnIdOf; used by interaction_graph_utils.source_nodes)",
    "aeon.BooleanNetwork.variables / variable_names / get_variable_name / get_update_function / predecessors":
        "variables() lists every variable once; variable_names() are their names in the same order; get_update_function is None exactly for "
        "variables without one (AX_AEON_NET)",
    "aeon.SymbolicContext": "SymbolicContext(network) is a context of that network; mk_update_function / mk_network_variable / Bdd.l_and / l_not build BDDs "
                            "of the context, whose clause literals are named after variables of the network (AX_AEON_NET)",
}


class _BnPreds(Val):
    def __init__(self, bn, var):
        self.bn, self.var = bn, var
        self.ty = THelper("bn-predecessors")
        self.t = None


def install_network(reg):
    reg.extra_trusted.append(TRUSTED_NET)
    prev = [(p, m) for p, m in reg.models]

    def base_model(v):
        for p, m in prev:
            if p(v):
                return m
        return None

    class NetModel(ObjModel):
        def method(self, eng, st, v, meth, args, kw, node, recv_expr=None):
            if meth == "variable_names" and not args:
                r = LNm.fresh("names")
                L = BnVarList(v.t)
                st.assume(z3.And(LNm.len(r.t) == LBV.len(L), LBV.len(L) >= 0))
                st.assume(z3.ForAll([_a], z3.Implies(z3.And(0 <= _a, _a < LBV.len(L)), LNm.at(r.t)[_a] == BnName(v.t, LBV.at(L)[_a])),
                                    patterns=[LNm.at(r.t)[_a]]))
                return r
            if meth in ("get_update_function", "predecessors", "get_variable_name") and len(args) == 1 and args[0].ty == TName:
                eng.oblige(st, f"pre.{meth}.isvar@{node.lineno}", T.isvar(bn_net_of(v.t), args[0].t), node.lineno, kind="pre")
                if meth == "get_variable_name":
                    return Val(TName, args[0].t)
                args = [Val(TBnVar, BnIdOf(v.t, args[0].t))]
            if meth == "get_variable_name" and len(args) == 1 and args[0].ty == TBnVar:
                return Val(TName, BnName(v.t, args[0].t))
            if meth == "get_update_function" and len(args) == 1 and args[0].ty == TBnVar:
                ty = TOpt(TUpd)
                r = ty.fresh("updfn")
                st.assume(ty.is_none(r.t) == z3.Not(HasFn(v.t, args[0].t)))
                st.assume(z3.Implies(HasFn(v.t, args[0].t), ty.val(r.t) == UpdFn(v.t, args[0].t)))
                return r
            if meth == "predecessors" and len(args) == 1 and args[0].ty == TBnVar:
                return _BnPreds(v, args[0])
            return base_model(v).method(eng, st, v, meth, args, kw, node, recv_expr)

    class CtxModel(ObjModel):
        def method(self, eng, st, v, meth, args, kw, node, recv_expr=None):
            if meth == "mk_update_function" and len(args) == 1 and args[0].ty == TUpd:
                return Val(TBdd, MkFn(v.t, args[0].t))
            if meth == "mk_network_variable" and len(args) == 1 and args[0].ty == TBnVar:
                return Val(TBdd, MkVar(v.t, args[0].t))
            if meth == "mk_network_variable" and len(args) == 1 and args[0].ty == TName:
                eng.oblige(st, f"pre.mk_network_variable.isvar@{node.lineno}", T.isvar(CtxNet(v.t), args[0].t), node.lineno, kind="pre")
                return Val(TBdd, MkVar(v.t, BnIdOf(CtxNetObj(v.t), args[0].t)))
            if meth == "bdd_variable_set" and not args:
                return Val(TBvs, BvsOf(v.t))
            m = base_model(v)
            if m is None:
                raise OutOfSubset(f"SymbolicContext.{meth}")
            return m.method(eng, st, v, meth, args, kw, node, recv_expr)

    class BddAnd(ObjModel):
        def method(self, eng, st, v, meth, args, kw, node, recv_expr=None):
            if meth == "l_and" and len(args) == 1 and args[0].ty == TBdd:
                return Val(TBdd, bdd_and(v.t, args[0].t))
            return base_model(v).method(eng, st, v, meth, args, kw, node, recv_expr)

    reg.models = [(lambda v: v.ty == TNetObj, NetModel()), (lambda v: v.ty == TCtxObj, CtxModel()), (lambda v: v.ty == TBdd, BddAnd())] + reg.models

    def iterate(eng, st, coll, node):
        if isinstance(coll, _BnVars):
            return ENG._ListIter(Val(LBV, BnVarList(coll.bn.t)))
        return None
    reg.add_hook("iterate", iterate)

    def size_of(eng, st, v, node):
        if isinstance(v, _BnPreds):
            st.assume(PredCount(v.bn.t, v.var.t) >= 0)
            return vint(PredCount(v.bn.t, v.var.t))
        return None
    reg.add_hook("size_of", size_of)

    def sym_ctx(eng, st, node):
        a = [eng.ev(x, st) for x in node.args]
        if len(a) != 1 or a[0].ty != TNetObj or node.keywords:
            raise OutOfSubset("SymbolicContext(<args>)")
        return Val(TCtxObj, CtxOfNet(a[0].t))
    reg.global_calls["SymbolicContext"] = sym_ctx

    OptCtx = TOpt(TCtxObj)

    def the_ctx(c):
        return z3.If(OptCtx.is_none(c.symbolic_context), CtxOfNet(c.network), OptCtx.val(c.symbolic_context))

    def up_bdd(cx, nt, x):
        return bdd_and(MkFn(cx, UpdFn(nt, x)), bdd_not(MkVar(cx, x)))

    def down_bdd(cx, nt, x):
        return bdd_and(bdd_not(MkFn(cx, UpdFn(nt, x))), MkVar(cx, x))

    def var_nodes(cx, nt, x, q):
        """q is a transition of variable id x"""
        nm = BnName(nt, x)
        return z3.And(HasFn(nt, x), z3.Or(added_nodes(nm, z3.BoolVal(True), LImpl.len(DnfOf(up_bdd(cx, nt, x))), q),
                                          added_nodes(nm, z3.BoolVal(False), LImpl.len(DnfOf(down_bdd(cx, nt, x))), q)))

    def var_edges(cx, nt, x, p, q):
        nm = BnName(nt, x)
        U, D = DnfOf(up_bdd(cx, nt, x)), DnfOf(down_bdd(cx, nt, x))
        return z3.And(HasFn(nt, x), z3.Or(added_edges(BvsOf(cx), nm, z3.BoolVal(True), U, LImpl.len(U), p, q),
                                          added_edges(BvsOf(cx), nm, z3.BoolVal(False), D, LImpl.len(D), p, q)))

    def place_node(nt, q, upto=None):
        """q is a place of one of the (first `upto`) variables"""
        L = BnVarList(nt)
        k = LBV.len(L) if upto is None else upto
        return z3.Exists([_a, b_], z3.And(0 <= _a, _a < k, q == P.place(BnName(nt, LBV.at(L)[_a]), b_)))

    def net_nodes(g, cx, nt, k):
        L = BnVarList(nt)
        return z3.ForAll([n], G.nodes(g)[n] == z3.Or(place_node(nt, n), z3.Exists([_a], z3.And(0 <= _a, _a < k, var_nodes(cx, nt, LBV.at(L)[_a], n)))))

    def net_edges(g, cx, nt, k):
        L = BnVarList(nt)
        return z3.ForAll([n, m], E(g, n, m) == z3.Exists([_a], z3.And(0 <= _a, _a < k, var_edges(cx, nt, LBV.at(L)[_a], n, m))))

    def places_dict(c, k):
        L = BnVarList(c.network)
        return z3.And(places_ok(c.places),
                      z3.ForAll([v_], TPlaces.dom(c.places)[v_] == z3.Exists([_a], z3.And(0 <= _a, _a < k, BnName(c.network, LBV.at(L)[_a]) == v_))))

    def inv0(c):
        L = BnVarList(c.network)
        return [("names", z3.And(LNm.len(c.coll) == LBV.len(L), z3.ForAll([_a], z3.Implies(z3.And(0 <= _a, _a < LBV.len(L)),
                                                                                          LNm.at(c.coll)[_a] == BnName(c.network, LBV.at(L)[_a]))))),
                ("context", c.symbolic_context == OptCtx.some(the_ctx(c.old))),
                ("places_of_the_visited_names", z3.And(c.i >= 0, places_dict(c, c.i))),
                ("only_their_places_so_far", z3.And(z3.ForAll([n], G.nodes(c.pn)[n] == place_node(c.network, n, upto=c.i)),
                                                    z3.ForAll([n, m], z3.Not(E(c.pn, n, m)))))]

    def inv1(c):
        L = BnVarList(c.network)
        cx = the_ctx(c.old)
        steps = []
        try:
            gh = c.at_head(1, "pn")
            if c.st.ghost.get("loop1") is not None and gh is not c.pn:
                # proof steps (not visible to callers): what THIS iteration added, relative to the graph at its head
                x = LBV.at(L)[c.i - 1]
                k1 = c.i - 1
                split_n = z3.ForAll([n], z3.Exists([_a], z3.And(0 <= _a, _a < c.i, var_nodes(cx, c.network, LBV.at(L)[_a], n))) == z3.Or(
                    z3.Exists([_a], z3.And(0 <= _a, _a < k1, var_nodes(cx, c.network, LBV.at(L)[_a], n))), var_nodes(cx, c.network, x, n)))
                split_e = z3.ForAll([n, m], z3.Exists([_a], z3.And(0 <= _a, _a < c.i, var_edges(cx, c.network, LBV.at(L)[_a], n, m))) == z3.Or(
                    z3.Exists([_a], z3.And(0 <= _a, _a < k1, var_edges(cx, c.network, LBV.at(L)[_a], n, m))), var_edges(cx, c.network, x, n, m)))
                steps = [("step.split_off_the_last_variable(nodes)", split_n), ("step.split_off_the_last_variable(edges)", split_e),
                         ("step.nodes_added_for_this_variable", z3.ForAll([n], G.nodes(c.pn)[n] == z3.Or(G.nodes(gh)[n], var_nodes(cx, c.network, x, n)))),
                         ("step.edges_added_for_this_variable", z3.ForAll([n, m], E(c.pn, n, m) == z3.Or(E(gh, n, m), var_edges(cx, c.network, x, n, m))))]
        except (KeyError, AttributeError):
            pass
        return [("coll", c.coll == L), ("context", c.symbolic_context == OptCtx.some(cx)),
                ("places", z3.And(c.i >= 0, places_dict(c, LBV.len(L))))] + steps + [
                ("transitions_of_the_visited_variables", net_nodes(c.pn, cx, c.network, c.i)),
                ("wired_as_their_implicants_say", net_edges(c.pn, cx, c.network, c.i))]

    def post(c):
        cx = the_ctx(c)
        L = BnVarList(c.network)
        return z3.And(net_nodes(c.result, cx, c.network, LBV.len(L)), net_edges(c.result, cx, c.network, LBV.len(L)))

    reg.add(Contract(
        "biobalm.petri_net_translation.network_to_petrinet#structure",
        params=[("network", TNetObj), ("symbolic_context", OptCtx)], defaults={"symbolic_context": None}, result_type=P.TPNG,
        properties=("C10",),
        requires=[lambda c: z3.Implies(z3.Not(OptCtx.is_none(c.symbolic_context)), CtxNet(OptCtx.val(c.symbolic_context)) == bn_net_of(c.network))],
        ensures=[("two_places_per_variable_and_one_transition_per_implicant_of_each_update_direction", post)],
        may_raise={"AssertionError": {}, "Exception": {}}, raises={"AssertionError": [], "Exception": []},
        axioms=AXIOMS + AX_AEON_NET, ann_types={"dict[str,tuple[str,str]]": TPlaces},
        local_types={"pn": P.TPNG, "places": TPlaces, "p_name": P.TPNode, "n_name": P.TPNode, "var_name": TName},
        loops={0: LoopContract("for name in network.variable_names()", inv0),
               1: LoopContract("for var in network.variables()", inv1)},
        trusted_fragments=[{"name": "rejection of unsanitised names and of parametrised networks (raises or has no effect)",
                            "first": "sanitize_network_names(network, check_only=True)",
                            "last": "if len(non_input_implicit) > 0:", "sha256": "db1d0e2b0819fcdbfe7dd7c9bc6ac4cab6e32e97fe8f41e91e66312d39d340c4", "assigns": {},
                            "ensures": lambda c: [z3.ForAll([_id], z3.Implies(z3.Not(HasFn(c.network, _id)), PredCount(c.network, _id) == 0),
                                                            patterns=[HasFn(c.network, _id)])]}],
        note="the graph is characterised node by node and edge by edge from the clause lists of the update directions; the meaning (Encodes) stays "
             "with the assumed call-site contract + lemma L4"))


# ====================================================================== optimized_recursive_dnf_generator (the clause cover)
TVal = z3.ArraySort(TBddVar.sort(), B)                                     # a total valuation of the BDD variables
Sat = z3.Function("bdd_sat", T.Bdd, TVal, B)                               # the Boolean function a BDD denotes
Support = z3.Function("bdd_support_set", T.Bdd, z3.ArraySort(TBddVar.sort(), B))
SuppCard = z3.Function("bdd_support_size", T.Bdd, I)
Restrict1 = z3.Function("bdd_r_restrict_one", T.Bdd, TBddVar.sort(), B, T.Bdd)   # bdd.r_restrict({var: value})
BddSize = z3.Function("bdd_node_count", T.Bdd, I)
x_ = z3.Const("x!pb", TVal)
_val = z3.Bool("val!pb")
from pyvc.externals_aeon import EMPTY as _EMPTY


def agree_def(imp, x):
    return z3.ForAll([w], z3.Implies(TImpl.dom(imp)[w], TImpl.vals(imp)[w] == x[w]))


Agree = z3.Function("clause_agrees", TImpl.sort(), TVal, B)        # valuation x satisfies the conjunction of literals imp
_imp = z3.Const("imp!pb", TImpl.sort())
AX_AGREE_DEF = [z3.ForAll([_imp, x_], Agree(_imp, x_) == agree_def(_imp, x_), patterns=[Agree(_imp, x_)])]


def with_lit(imp, var, val):
    """imp[var] = val"""
    return TImpl.mk(z3.Store(TImpl.dom(imp), var, True), z3.Store(TImpl.vals(imp), var, val))


def agree_with_added_literal():
    """adding a literal on a variable the clause does not mention: satisfied iff the valuation gives the variable that value and satisfies
    the clause (schema lemma S.agree_with_added_literal, proved by SMT on every run from the definition of Agree)"""
    return z3.ForAll([_imp, x_, w, _val], z3.Implies(z3.Not(TImpl.dom(_imp)[w]),
                                                    Agree(with_lit(_imp, w, _val), x_) == z3.And(x_[w] == _val, Agree(_imp, x_))),
                     patterns=[Agree(with_lit(_imp, w, _val), x_)])


def agree(imp, x):
    return Agree(imp, x)


AX_BDD_SEM = [
    # constants (is_true / is_false are modelled by the three-valued evaluation on the empty space)
    z3.ForAll([_bd, x_], z3.Implies(T.EvalOn(_bd, _EMPTY) == 1, Sat(_bd, x_)), patterns=[Sat(_bd, x_)]),
    z3.ForAll([_bd, x_], z3.Implies(T.EvalOn(_bd, _EMPTY) == 0, z3.Not(Sat(_bd, x_))), patterns=[Sat(_bd, x_)]),
    # restriction of one variable: agrees with the BDD on the valuations that give the variable that value ...
    z3.ForAll([_bd, w, _val, x_], z3.Implies(x_[w] == _val, Sat(Restrict1(_bd, w, _val), x_) == Sat(_bd, x_)),
              patterns=[Sat(Restrict1(_bd, w, _val), x_), z3.MultiPattern(Sat(_bd, x_), Restrict1(_bd, w, _val))]),
    # ... and no longer depends on it; the support only shrinks
    z3.ForAll([_bd, w, _val, _id2 := z3.Const("w2!pb", TBddVar.sort())],
              z3.Implies(Support(Restrict1(_bd, w, _val))[_id2], z3.And(Support(_bd)[_id2], _id2 != w)),
              patterns=[Support(Restrict1(_bd, w, _val))[_id2]]),
    z3.ForAll([_bd, w, _val], z3.Implies(Support(_bd)[w], z3.And(SuppCard(Restrict1(_bd, w, _val)) < SuppCard(_bd), SuppCard(Restrict1(_bd, w, _val)) >= 0)),
              patterns=[Restrict1(_bd, w, _val)]),
    z3.ForAll([_bd], SuppCard(_bd) >= 0, patterns=[SuppCard(_bd)]),
    # a BDD with an empty support is constant
    z3.ForAll([_bd], z3.Implies(z3.And(T.EvalOn(_bd, _EMPTY) != 1, T.EvalOn(_bd, _EMPTY) != 0), z3.Exists([w], Support(_bd)[w])), patterns=[Support(_bd)]),
]
TRUSTED_BDD = {
    "aeon.Bdd semantics (clause generator)": "is_true / is_false decide constancy; r_restrict({v: b}) agrees with the BDD where v = b; support_set() shrinks by v "
                                             "under such a restriction and is non-empty for a non-constant BDD; BddPartialValuation(ctx, {}) is the empty "
                                             "conjunction and item assignment adds / overrides one literal (AX_BDD_SEM)",
}


class _BddAssign(Val):
    def __init__(self, var, val):
        self.var, self.val = var, val
        self.ty = THelper("bdd-single-assignment")
        self.t = None


def install_source_nodes(reg):
    """interaction_graph_utils.source_nodes: the variables without an update function and those whose update-function BDD IS the BDD of the variable itself
    (semantic identity by canonicity of BDDs - ASSUMED of AEON), in declaration order, each once."""
    OptCtx = TOpt(TCtxObj)
    vq = z3.Const("v!sn", Name)
    a_, b_ = z3.Int("a!sn"), z3.Int("b!sn")

    def cx(c):
        return z3.If(OptCtx.is_none(c.old.ctx), CtxOfNet(c.network), OptCtx.val(c.old.ctx))

    def is_src(c, x):
        return z3.Or(z3.Not(HasFn(c.network, x)), MkFn(cx(c), UpdFn(c.network, x)) == MkVar(cx(c), x))

    def listed(c, l, k):
        L = BnVarList(c.network)
        return z3.And(LNm.len(l) >= 0,
                      z3.ForAll([vq], A.MemName(l, vq) == z3.Exists([a_], z3.And(0 <= a_, a_ < k, BnName(c.network, LBV.at(L)[a_]) == vq, is_src(c, LBV.at(L)[a_])))),
                      z3.ForAll([a_, b_], z3.Implies(z3.And(0 <= a_, a_ < b_, b_ < LNm.len(l)), LNm.at(l)[a_] != LNm.at(l)[b_])))

    def inv(c):
        L = BnVarList(c.network)
        return [("names", z3.And(LNm.len(c.coll) == LBV.len(L), z3.ForAll([a_], z3.Implies(z3.And(0 <= a_, a_ < LBV.len(L)),
                                                                                          LNm.at(c.coll)[a_] == BnName(c.network, LBV.at(L)[a_]))))),
                ("context", c.ctx == OptCtx.some(cx(c))),
                ("sources_so_far", listed(c, c.result, c.i))]

    reg.add(Contract(
        "biobalm.interaction_graph_utils.source_nodes", params=[("network", TNetObj), ("ctx", OptCtx)], defaults={"ctx": None}, result_type=LNm,
        properties=("C18", "C03"),
        requires=[lambda c: z3.Implies(z3.Not(OptCtx.is_none(c.ctx)), z3.And(CtxNet(OptCtx.val(c.ctx)) == bn_net_of(c.network), CtxNetObj(OptCtx.val(c.ctx)) == c.network)),
                  # cleanup_network (assumed) rejects variables without an update function that have regulators
                  lambda c: z3.ForAll([a_], z3.Implies(z3.And(0 <= a_, a_ < LBV.len(BnVarList(c.network)), z3.Not(HasFn(c.network, LBV.at(BnVarList(c.network))[a_]))),
                                                       PredCount(c.network, LBV.at(BnVarList(c.network))[a_]) == 0))],
        ensures=[("exactly_the_sources_each_once", lambda c: listed(c, c.result, LBV.len(BnVarList(c.network))))],
        axioms=_LazyAxioms(AX_AEON_NET, lambda: _names()["axioms"], A.AX_MEMNAME), local_types={"result": LNm, "update_function": TOpt(TUpd)},
        loops={0: LoopContract("for var in network.variable_names()", inv)},
        note="a variable is listed iff it has no update function or the BDD of its update function equals the BDD of the variable (canonical BDDs: the "
             "function is the identity); declaration order, no duplicates; callers (the block / SCC drivers) are outside the contracts"))


def install_generator(reg):
    reg.extra_trusted.append(TRUSTED_BDD)
    T.LEMMAS["def.DnfOf"] = ("DnfOf(b) NAMES the list optimized_recursive_dnf_generator yields for the BDD b: the generator is a deterministic function "
                             "of the BDD (assumed)   [definition]")
    prev = [(p, m) for p, m in reg.models]

    def base_model(v):
        for p, m in prev:
            if p(v):
                return m
        return None

    class BddSem(ObjModel):
        def method(self, eng, st, v, meth, args, kw, node, recv_expr=None):
            if meth == "r_restrict" and len(args) == 1 and isinstance(args[0], _BddAssign):
                return Val(TBdd, Restrict1(v.t, args[0].var.t, eng.truth(args[0].val)))
            if meth == "support_set" and not args:
                return Val(TSet(TBddVar), Support(v.t))
            return base_model(v).method(eng, st, v, meth, args, kw, node, recv_expr)

    reg.models = [(lambda v: v.ty == TBdd, BddSem())] + reg.models

    def dict_literal(eng, st, ks, vs, node):
        if len(ks) == 1 and ks[0].ty == TBddVar and vs[0].ty == TBool:
            return _BddAssign(ks[0], vs[0])
        return None
    reg.add_hook("dict_literal", dict_literal)

    LB = TList(TBddVar)

    def sorted_support(eng, st, v, kw, node):
        if isinstance(v.ty, TSet) and v.ty.elem == TBddVar and not kw:
            r = LB.fresh("sorted_support")
            a = z3.Int(fresh_name("a"))
            pos = z3.Function(fresh_name("pos"), TBddVar.sort(), I)
            st.assume(LB.len(r.t) >= 0)
            st.assume(z3.ForAll([a], z3.Implies(z3.And(0 <= a, a < LB.len(r.t)), v.t[LB.at(r.t)[a]]), patterns=[LB.at(r.t)[a]]))
            st.assume(z3.ForAll([w], z3.Implies(v.t[w], z3.And(0 <= pos(w), pos(w) < LB.len(r.t), LB.at(r.t)[pos(w)] == w)), patterns=[v.t[w]]))
            return r
        return None
    reg.add_hook("sorted", sorted_support)

    def size_of(eng, st, v, node):
        if v.ty == TBdd:
            st.assume(BddSize(v.t) >= 1)
            return vint(BddSize(v.t))
        return None
    reg.add_hook("size_of", size_of)

    def partial_valuation(eng, st, node):
        # BddPartialValuation(ctx, {}): the empty conjunction
        if len(node.args) != 2:
            raise OutOfSubset("BddPartialValuation(<args>)")
        a1 = node.args[1]
        import ast as _ast
        if isinstance(a1, _ast.Call) and getattr(a1.func, "id", "") == "cast":
            a1 = a1.args[1]
        if not (isinstance(a1, _ast.Dict) and not a1.keys):
            raise OutOfSubset("BddPartialValuation with a non-empty dict")
        return Val(TImpl, TImpl.mk(z3.K(TBddVar.sort(), z3.BoolVal(False)), z3.K(TBddVar.sort(), z3.BoolVal(False))))
    reg.global_calls["BddPartialValuation"] = partial_valuation

    from . import sd_inv as S_
    S_.EXTRA_SCHEMAS["S.agree_with_added_literal"] = lambda fresh: (agree_with_added_literal(), AX_AGREE_DEF)
    T.LEMMAS["S.agree_with_added_literal"] = ("imp does not mention w  ==>  (x satisfies imp[w := b]  <=>  x[w] = b and x satisfies imp)   "
                                              "[schema lemma, proved by SMT on every run from the definition of clause satisfaction]")

    def Y(c):
        return c.local("__yield__")

    def R1(c):
        return DnfOf(Restrict1(c.bdd, c.best_var, z3.BoolVal(True)))

    def R2(c):
        return DnfOf(Restrict1(c.bdd, c.best_var, z3.BoolVal(False)))

    def first_part(c, k):
        return z3.ForAll([j_], z3.Implies(z3.And(0 <= j_, j_ < k), LImpl.at(Y(c))[j_] == with_lit(LImpl.at(R1(c))[j_], c.best_var, z3.BoolVal(True))),
                         patterns=[LImpl.at(Y(c))[j_], LImpl.at(R1(c))[j_]])

    def second_part(c, k):
        n1 = LImpl.len(R1(c))
        return z3.And(
            z3.ForAll([j_], z3.Implies(z3.And(n1 <= j_, j_ < n1 + k), LImpl.at(Y(c))[j_] == with_lit(LImpl.at(R2(c))[j_ - n1], c.best_var, z3.BoolVal(False))),
                      patterns=[LImpl.at(Y(c))[j_]]),
            z3.ForAll([j_], z3.Implies(z3.And(0 <= j_, j_ < k), LImpl.at(Y(c))[n1 + j_] == with_lit(LImpl.at(R2(c))[j_], c.best_var, z3.BoolVal(False))),
                      patterns=[LImpl.at(R2(c))[j_]]))

    def cover(b, L):
        return z3.ForAll([x_], Sat(b, x_) == z3.Exists([j_], z3.And(0 <= j_, j_ < LImpl.len(L), agree(LImpl.at(L)[j_], x_))))

    def within_support(b, L):
        return z3.ForAll([j_, w], z3.Implies(z3.And(0 <= j_, j_ < LImpl.len(L), TImpl.dom(LImpl.at(L)[j_])[w]), Support(b)[w]),
                         patterns=[TImpl.dom(LImpl.at(L)[j_])[w]])

    def def_dnf(c):
        if c.result is None:
            raise AttributeError("only at exits")
        return c.result == DnfOf(c.bdd)

    reg.contracts.pop("biobalm.petri_net_translation.optimized_recursive_dnf_generator", None)
    reg.add(Contract(
        "biobalm.petri_net_translation.optimized_recursive_dnf_generator", params=[("bdd", TBdd)], result_type=LImpl,
        properties=("C10", "C13"),
        ensures=[("is_the_clause_list_of_the_bdd", lambda c: z3.And(c.result == DnfOf(c.bdd), LImpl.len(c.result) >= 0)),
                 ("clauses_cover_the_bdd_exactly", lambda c: cover(c.bdd, c.result)),
                 ("literals_within_the_support", lambda c: within_support(c.bdd, c.result))],
        lemmas=[("def.DnfOf", def_dnf), ("S.agree_with_added_literal", lambda c: agree_with_added_literal())],
        rec_variant=lambda c: SuppCard(c.bdd),
        axioms=AX_BDD_SEM + AX_AGREE_DEF, local_types={"__yield__": LImpl, "support": LB, "best_var": TBddVar, "t_val": TImpl, "f_val": TImpl},
        loops={0: LoopContract("for var in support", lambda c: [("candidate_in_support", Support(c.bdd)[c.best_var])]),
               1: LoopContract("for t_val in optimized_recursive_dnf_generator(bdd.r_restrict({best_var: True}))", lambda c: [
                   ("coll", c.coll == R1(c)), ("in_support", Support(c.bdd)[c.best_var]),
                   ("positive_half_so_far", z3.And(LImpl.len(Y(c)) == c.i, first_part(c, c.i)))]),
               2: LoopContract("for f_val in optimized_recursive_dnf_generator(bdd.r_restrict({best_var: False}))", lambda c: [
                   ("coll", c.coll == R2(c)), ("in_support", Support(c.bdd)[c.best_var]),
                   ("both_halves_so_far", z3.And(LImpl.len(Y(c)) == LImpl.len(R1(c)) + c.i, first_part(c, LImpl.len(R1(c))), second_part(c, c.i)))])},
        note="Shannon expansion on the chosen variable; recursion measured by the size of the support"))


# ---- names in place of variable ids ----
# Declared LAZILY, on first use by the verification of source_nodes: z3 numbers its terms in creation order and the E-matching proofs of the
# functions above (network_to_petrinet#structure) are sensitive to that order, so nothing may be declared before their terms exist.
_NAMES = {}


def _names():
    if not _NAMES:
        CtxNetObj = z3.Function("ctx_network_object", TCtxObj.sort(), TNetObj.sort())
        BnIdOf = z3.Function("bn_variable_id_of_name", TNetObj.sort(), Name, TBnVar.sort())      # AEON resolves a variable given by its name
        _NAMES.update(CtxNetObj=CtxNetObj, BnIdOf=BnIdOf, axioms=[
            z3.ForAll([_nt], CtxNetObj(CtxOfNet(_nt)) == _nt, patterns=[CtxOfNet(_nt)]),
            z3.ForAll([_nt, _a], z3.Implies(z3.And(0 <= _a, _a < LBV.len(BnVarList(_nt))),
                                            BnIdOf(_nt, BnName(_nt, LBV.at(BnVarList(_nt))[_a])) == LBV.at(BnVarList(_nt))[_a]),
                      patterns=[BnName(_nt, LBV.at(BnVarList(_nt))[_a])])])
    return _NAMES


def BnIdOf(nt, nm):
    return _names()["BnIdOf"](nt, nm)


def CtxNetObj(cx):
    return _names()["CtxNetObj"](cx)


class _LazyAxioms:
    def __init__(self, *parts):
        self.parts = parts

    def __iter__(self):
        out = []
        for p in self.parts:
            out += list(p() if callable(p) else p)
        return iter(out)
