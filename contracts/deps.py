"""Call-site contracts of biobalm functions that are (for now) not verified against their bodies
(trusted=True: listed as assumed in every evidence file) — the solver wrapper and a few helpers.
As functions get body-verified their contract moves to the module file and loses `trusted`."""
import z3
from pyvc.vtypes import *
from pyvc.contract import Contract, LoopContract, HeapParam
from pyvc import theory as T
from pyvc import sdmodel as M
from pyvc.externals_aeon import TGraph, TNetObj, net_of, bn_net_of

LS = M.LS
LN = TList(TName)
OptInt, OptSpace, OptLS, OptLN = TOpt(TInt), TOpt(TSpace), TOpt(LS), TOpt(LN)
k = z3.Const("k", Name)
a = z3.Int("a")

LSet = z3.Function("LSet", LN.sort(), T.SrcSet)          # element set of a list of names
NoSrc = z3.K(Name, z3.BoolVal(False))
SrcOf = z3.Function("SrcOf", T.PNS, T.SrcSet)            # variables no transition of the net changes
AvoidOf = z3.Function("AvoidOf", LS.sort(), T.AvoidSig)
_l = z3.Const("l!s", LN.sort())
AX_LSET = [z3.ForAll([_l], z3.Implies(LN.len(_l) == 0, LSet(_l) == NoSrc), patterns=[LSet(_l)])]


def elems_wf(lst):
    return z3.ForAll([a], z3.Implies(z3.And(0 <= a, a < LS.len(lst)), T.wf_space(LS.at(lst)[a])))


def install(reg):
    reg.add(Contract(
        "biobalm.petri_net_translation.extract_source_variables", trusted=True,
        params=[("encoded_network", M.TPN)], result_type=LN,
        properties=("C02", "C09"),
        ensures=[("sources", lambda c: LSet(c.result) == SrcOf(c.encoded_network))],
        note="variables that no transition changes, sorted",
    ))
