"""Call-site contracts of biobalm functions that are (for now) not verified against their bodies
(trusted=True: listed as assumed in every evidence file) — the solver wrapper and a few helpers.
As functions get body-verified their contract moves to the module file and loses `trusted`."""
import z3
from pyvc.vtypes import *
from pyvc.contract import Contract, LoopContract, HeapParam
from pyvc import theory as T
from pyvc import sdmodel as M
from pyvc.externals_aeon import TGraph, TNetObj, net_of, bn_net_of

LS = M.LS
LN = TList(TName)
OptInt, OptSpace, OptLS, OptLN = TOpt(TInt), TOpt(TSpace), TOpt(LS), TOpt(LN)
k = z3.Const("k", Name)
a = z3.Int("a")

LSet = z3.Function("LSet", LN.sort(), T.SrcSet)          # element set of a list of names
NoSrc = z3.K(Name, z3.BoolVal(False))
SrcOf = z3.Function("SrcOf", T.PNS, T.SrcSet)            # variables no transition of the net changes
AvoidOf = z3.Function("AvoidOf", LS.sort(), T.AvoidSig)
_l = z3.Const("l!s", LN.sort())
AX_LSET = [z3.ForAll([_l], z3.Implies(LN.len(_l) == 0, LSet(_l) == NoSrc), patterns=[LSet(_l)])]


# ---- bridge between the opaque Petri-net objects of the diagram layer (sort PetriNet, spec functions Encodes / RestrictPN /
# TrapSol / SrcOf) and the graph values of the translation layer (datatype PNGraph): every opaque net HAS a graph; SrcOf is by
# DEFINITION the source set computed on that graph by the (verified) extract_source_variables; the graphs are well-named
# (what network_to_petrinet / restrict_petrinet_to_subspace produce - assumed with those functions)
from pyvc import pnmodel as _P
from pyvc import aspmodel as _A
pn_graph = z3.Function("pn_graph", T.PNS, _P.PNGraph)
_pq, _nq = z3.Const("p!br", T.PNS), z3.Const("n!br", _P.PNode)
AX_BRIDGE = [
    z3.ForAll([_pq], SrcOf(_pq) == _A.SrcSetG(pn_graph(_pq)), patterns=[SrcOf(_pq)]),
    z3.ForAll([_pq, _nq], z3.Implies(z3.And(_P.PNGraph.nodes(pn_graph(_pq))[_nq], _P.is_place(_nq)), _nq == _P.place(_P.pvar(_nq), _P.ppos(_nq))),
              patterns=[_P.PNGraph.nodes(pn_graph(_pq))[_nq]]),
    # nodes of such a graph are places or transitions, and a node of kind `place` is named like one
    z3.ForAll([_pq, _nq], z3.Implies(_P.PNGraph.nodes(pn_graph(_pq))[_nq], z3.And(
        z3.Or(_A.kind_of(_nq) == 0, _A.kind_of(_nq) == 1), z3.Implies(_A.kind_of(_nq) == 0, _P.is_place(_nq)))),
              patterns=[_P.PNGraph.nodes(pn_graph(_pq))[_nq]]),
]


def elems_wf(lst):
    return z3.ForAll([a], z3.Implies(z3.And(0 <= a, a < LS.len(lst)), T.wf_space(LS.at(lst)[a])))


def install(reg):
    def coerce(eng, st, v, ty):
        # an opaque Petri net passed to a function of the translation layer: its graph
        if v.ty == M.TPN and ty == _P.TPNG:
            return Val(_P.TPNG, pn_graph(v.t))
        return None
    reg.add_hook("coerce", coerce)
