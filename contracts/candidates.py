"""Contract of biobalm/_sd_attractors/attractor_candidates.compute_attractor_candidates (C08) and the
call-site contracts of its helpers.  Sidecar; no repository code.

Structure of the proof (DESIGN.md section 7, C08):
  phase 1  the avoid list is EXACTLY what the rule as written prescribes (children's reduced motifs, then, for skip
           nodes, the exclusions of non-ancestor nodes whose candidates or seeds are the empty list, in id order);
  phase 2  on every path through the option / threshold / limit logic the pair (retained set, candidate list) satisfies
           "the retained set assigns every NFVS variable and the list is the COMPLETE deadlock set of the reduced net";
           a limited solver call is complete only if it returned fewer solutions than its limit;
  phase 3  minification preserves coverage; results are lifted to full states of the node space.
The attractor mathematics (retained-set theorem L7, simulation argument L8) enters only through named lemma instances."""
import z3
from pyvc.vtypes import *
from pyvc.contract import Contract, LoopContract, HeapParam
from pyvc import theory as T
from pyvc import sdmodel as M
from pyvc.externals_aeon import TGraph, TNetObj, TBdd, bn_net_of, net_of
from . import sd_inv as S
from .succession_diagram import _dummy_ho
from .attractors import N, args_of, structure_unchanged, CACHEF
from .deps import AvoidOf, LS, LN, OptInt
from .trappist import ReducedSol, EMPTYS

SD = HeapParam("SD")
LI = M.LI
i_, j_, k_ = z3.Int("i"), z3.Int("j"), z3.Int("k!c")
kn = z3.Const("k", Name)
AS = T.AvoidSig

# ------------------------------------------------------------------ avoid-list vocabulary
addavoid = z3.Function("addavoid", AS, T.SpaceS, AS)
_l, _n, _a, _x = z3.Const("l!a", LS.sort()), z3.Int("n!a"), z3.Const("a!a", z3.ArraySort(I, T.SpaceS)), z3.Const("x!a", T.SpaceS)
AX_AVOIDLIST = [
    z3.ForAll([_l], z3.Implies(LS.len(_l) == 0, AvoidOf(_l) == T.no_avoid), patterns=[AvoidOf(_l)]),
    z3.ForAll([_n, _a, _x], z3.Implies(_n >= 0, AvoidOf(LS.mk(_n + 1, z3.Store(_a, _n, _x))) == addavoid(AvoidOf(LS.mk(_n, _a)), _x)),
              patterns=[AvoidOf(LS.mk(_n + 1, z3.Store(_a, _n, _x)))]),
]


def reduce_space(sp, S0):
    """{k: v for k, v in sp.items() if k not in S0}  (fixed bound name: equal reductions are equal terms)"""
    kq = z3.Const("ck!", Name)
    return z3.Lambda([kq], z3.If(z3.And(sp[kq] >= 0, z3.Not(S0[kq] >= 0)), sp[kq], -1))


ES = z3.ArraySort(I, z3.ArraySort(I, B))
M0S = z3.ArraySort(I, z3.ArraySort(I, T.SpaceS))
# ChildAvoid(motif0 row of the node, children list, node space, k): avoid signature of the first k children's reduced motifs
ChildAvoid = z3.Function("ChildAvoid", z3.ArraySort(I, T.SpaceS), LI.sort(), T.SpaceS, I, AS)
_row, _ch, _S0, _k = z3.Const("row!a", z3.ArraySort(I, T.SpaceS)), z3.Const("ch!a", LI.sort()), z3.Const("S0!a", T.SpaceS), z3.Int("k!a")
AX_AVOIDLIST += [
    z3.ForAll([_row, _ch, _S0], ChildAvoid(_row, _ch, _S0, 0) == T.no_avoid, patterns=[ChildAvoid(_row, _ch, _S0, 0)]),
    z3.ForAll([_row, _ch, _S0, _k], z3.Implies(_k >= 0, ChildAvoid(_row, _ch, _S0, _k + 1) ==
                                               addavoid(ChildAvoid(_row, _ch, _S0, _k), reduce_space(_row[LI.at(_ch)[_k]], _S0))),
              patterns=[ChildAvoid(_row, _ch, _S0, _k + 1)]),
]


def excl_rule(v, n, m):
    """node m contributes an exclusion to skip node n  -- THE RULE AS WRITTEN (known finding D12 is about this rule)"""
    S0, Sm = v.space[n], v.space[m]
    is_empty = lambda o: z3.And(z3.Not(M.OptLS.is_none(o)), LS.len(M.OptLS.val(o)) == 0)
    return z3.And(z3.Not(T.subspace(S0, Sm)),
                  z3.Or(is_empty(v.cand[m]), is_empty(v.seeds[m])),
                  z3.Not(z3.Exists([kn], z3.And(S0[kn] >= 0, Sm[kn] >= 0, S0[kn] != Sm[kn]))))


def excl_term(v, n, m):
    return reduce_space(T.union(v.space[n], v.space[m]), v.space[n])


# AvoidSpec(view, n) is defined through ExclFold: base = children part, then node ids 0..K-1 in order
ExclFold = z3.Function("ExclFold", AS, I, I, AS)     # (base, node, upto) -> signature; unfolded only through the instance lemma below


def exclfold_step(v, n, base, m):
    """definition of ExclFold at step m (instance; the fold ranges over the concrete view v)"""
    return z3.And(ExclFold(base, n, 0) == base,
                  z3.Implies(m >= 0, ExclFold(base, n, m + 1) == z3.If(excl_rule(v, n, m), addavoid(ExclFold(base, n, m), excl_term(v, n, m)),
                                                                      ExclFold(base, n, m))))


# ------------------------------------------------------------------ reduced-net vocabulary
NFVSOf = z3.Function("NFVSOf", T.BNS, LN.sort(), B)                  # the list hits every negative cycle of the percolated network
MemN = z3.Function("MemN", LN.sort(), Name, B)
CovRed = z3.Function("CovRed", T.Net, T.SpaceS, M.TSuccSig.sort(), B, AS, LS.sort(), B)   # reduced candidate list covers the owned attractors
_ln, _vn = z3.Const("ln!a", LN.sort()), z3.Const("vn!a", Name)
idxN = z3.Function("idxofN", LN.sort(), Name, I)
AX_MEMN = [
    z3.ForAll([_ln, _k], z3.Implies(z3.And(0 <= _k, _k < LN.len(_ln)), MemN(_ln, LN.at(_ln)[_k])), patterns=[LN.at(_ln)[_k]]),
    z3.ForAll([_ln, _vn], z3.Implies(MemN(_ln, _vn), z3.And(0 <= idxN(_ln, _vn), idxN(_ln, _vn) < LN.len(_ln), LN.at(_ln)[idxN(_ln, _vn)] == _vn)),
              patterns=[MemN(_ln, _vn)]),
]
T.LEMMAS.update({
    "L7.retained_set": "U hits every negative cycle of the percolated network, R assigns every variable of U, cs = ALL deadlocks of the net reduced by R "
                       "outside the avoid list  ==>  cs covers every attractor of the node that lies outside the avoided spaces   [cited: Trinh-Hiraishi-Benhamou 2022]",
    "L7.avoid_is_safe": "the avoided spaces (children's reduced stable motifs; for skip nodes the exclusions given by the rule as written) contain no attractor owned by the node "
                        "in the sense of Covers (for skip nodes: the weaker clause; D12 is the known finding about it)",
    "L7.empty_nfvs": "empty NFVS => every attractor is a fixed point, hence inside a minimal trap space, hence inside a successor when the node has successors",
    "L7.min_trap_nfvs": "an expanded successor-free node that is not a fixed point has a non-empty NFVS (its attractor is complex)",
    "L8.simulation": "a candidate may be replaced by a state reachable from it, and dropped when it reaches another kept candidate or an avoided space",
    "def.lift": "Covers speaks about the lifted list [x | node_space for x in cs]; CovRed(cs) is Covers of any list pointwise equal to the lift",
})


def lift_ok(c, v, n, avoid_sig):
    """CovRed ==> Covers for every list that is pointwise the lift of cs (definition of CovRed)"""
    r, cs = z3.Const("r!lift", LS.sort()), z3.Const("cs!lift", LS.sort())
    Nn, S0, sg, sk = args_of(v, n)
    return z3.ForAll([r, cs], z3.Implies(
        z3.And(CovRed(Nn, S0, sg, sk, avoid_sig, cs), LS.len(r) == LS.len(cs),
               z3.ForAll([k_], z3.Implies(z3.And(0 <= k_, k_ < LS.len(cs)), LS.at(r)[k_] == T.union(LS.at(cs)[k_], S0)))),
        S.Covers(Nn, S0, sg, sk, r)), patterns=[z3.MultiPattern(S.Covers(Nn, S0, sg, sk, r), CovRed(Nn, S0, sg, sk, avoid_sig, cs))])


def install(reg):
    INVN = [nm for nm, _ in S.inv(M.View(_dummy_ho()))]
    pick = lambda fn, nm: (lambda c: dict(fn(c))[nm])
    TR2 = TTuple(TSpace, LS)

    # ---------------------------------------------------------------- helpers: assumed call-site contracts
    reg.add(Contract(
        "biobalm.succession_diagram.SuccessionDiagram.node_percolated_nfvs", trusted=True,
        params=[("self", SD), ("node_id", TInt), ("compute", TBool)], defaults={"compute": False}, result_type=LN,
        properties=("C08", "C16"),
        requires=[lambda c: S.inv_all(c.self), lambda c: S.valid(c.self, c.node_id)],
        modifies={"self": ["pbn", "pnfvs"]},
        ensures=[("is_nfvs", lambda c: NFVSOf(T.PercNetObj(c.old.self.net, c.old.self.space[c.node_id]), c.result)),
                 ("names_of_percolated_network", lambda c: z3.ForAll([kn], z3.Implies(
                     MemN(c.result, kn), T.isvar(bn_net_of(T.PercNetObj(c.old.self.net, c.old.self.space[c.node_id])), kn)))),
                 ("only_caches", lambda c: structure_unchanged(c.self, c.old.self))] + [("inv." + x, pick(lambda c: [("inv." + a, g) for a, g in S.inv(c.self)], "inv." + x)) for x in INVN],
        note="AEON feedback_vertex_set (negative parity below nfvs_size_threshold, any parity above) on the percolated network"), method_of="SD")

    reg.add(Contract(
        "biobalm.succession_diagram.SuccessionDiagram.edge_stable_motif", trusted=True,
        params=[("self", SD), ("parent_id", TInt), ("child_id", TInt), ("reduced", TBool)], defaults={"reduced": False}, result_type=TSpace,
        properties=("C08", "C07"),
        requires=[lambda c: c.self.edge[c.parent_id][c.child_id]],
        pure=lambda c: Val(TSpace, z3.If(c.reduced, reduce_space(c.self.motif0[c.parent_id][c.child_id], c.self.space[c.parent_id]),
                                         c.self.motif0[c.parent_id][c.child_id])),
        note="dictionary comprehension over the stored motif; verified shape: {k: v for k, v in motif.items() if k not in parent space}"), method_of="SD")

    reg.add(Contract(
        "biobalm._sd_attractors.attractor_candidates.make_heuristic_retained_set", trusted=True,
        params=[("graph", TGraph), ("nfvs", LN), ("avoid_dnf", LS)], result_type=TSpace,
        properties=("C08",),
        ensures=[("assigns_exactly_the_nfvs", lambda c: z3.ForAll([kn], (c.result[kn] >= 0) == MemN(c.nfvs, kn)))],
        note="value choice is heuristic (irrelevant for correctness)"))

    def greedy_post(c):
        r = c.result
        R2, cs2 = TR2.get(r, 0), TR2.get(r, 1)
        av = AvoidOf(c.avoid_dnf)
        return [("pair_preserved", z3.Implies(T.IsEnum(c.candidate_states, ReducedSol(c.petri_net, c.retained_set, EMPTYS, av)),
                                              T.IsEnum(cs2, ReducedSol(c.petri_net, R2, EMPTYS, av)))),
                ("same_variables", z3.ForAll([kn], (R2[kn] >= 0) == (c.retained_set[kn] >= 0))),
                ("never_more_candidates", LS.len(cs2) <= LS.len(c.candidate_states))]

    reg.add(Contract(
        "biobalm._sd_attractors.attractor_candidates.asp_greedy_retained_set_optimization", trusted=True,
        params=[("sd", SD), ("node_id", TInt), ("petri_net", M.TPN), ("retained_set", TSpace), ("candidate_states", LS), ("avoid_dnf", LS)],
        result_type=TR2, properties=("C08", "C13"),
        may_raise={"RuntimeError": {}}, raises={"RuntimeError": []},
        ensures=[(nm, pick(greedy_post, nm)) for nm in ["pair_preserved", "same_variables", "never_more_candidates"]],
        note="flips one retained value at a time and keeps a flip only if the COMPLETE new candidate list is strictly smaller"))

    TCtx = TObj("SymbolicContext")

    reg.add(Contract(
        "biobalm.symbolic_utils.state_list_to_bdd", trusted=True,
        params=[("bdd_context", TCtx), ("states", LS)], result_type=TBdd, properties=("C08",),
        ensures=[], note="AEON mk_dnf"))

    def sim_post(c):
        return [("coverage_preserved", z3.ForAll([z3.Const("av!s", AS)], z3.Implies(
                    CovRed(*c.covargs, z3.Const("av!s", AS), c.candidate_states), CovRed(*c.covargs, z3.Const("av!s", AS), c.result)))),
                ("never_more_candidates", z3.And(LS.len(c.result) <= LS.len(c.candidate_states), LS.len(c.result) >= 0))]

    # run_simulation_minification needs the node's coverage arguments: they are passed through (sd, node_id)
    def sim_ens(name):
        def f(c):
            cov = args_of(c.sd, c.node_id)
            av = z3.Const("av!s", AS)
            if name == "coverage_preserved":
                return z3.ForAll([av], z3.Implies(CovRed(*cov, av, c.candidate_states), CovRed(*cov, av, c.result)))
            return z3.And(LS.len(c.result) <= LS.len(c.candidate_states), LS.len(c.result) >= 0)
        return f

    reg.add(Contract(
        "biobalm._sd_attractors.attractor_candidates.run_simulation_minification", trusted=True,
        params=[("sd", SD), ("node_id", TInt), ("graph", TGraph), ("candidate_states", LS), ("avoid_bdd", TBdd), ("max_iterations", TInt), ("simulation_seed", TInt)],
        result_type=LS, properties=("C08", "C13", "C19"),
        ensures=[("coverage_preserved", sim_ens("coverage_preserved")), ("never_more_candidates", sim_ens("never_more_candidates"))],
        note="random walks with a fixed seed (L8)"))

    # ---------------------------------------------------------------- compute_attractor_candidates
    old = reg.contracts.pop("biobalm._sd_attractors.attractor_candidates.compute_attractor_candidates")
    reg.by_name.pop("compute_attractor_candidates", None)

    def entry(c):
        return c.old.sd if c.old is not None else c.sd

    def pnr(o, n):
        return z3.If(T.card(o.space[n]) == T.nvars(N(o)), T.EmptyPN, T.RestrictPN(o.pn, o.space[n]))

    def bnr(o, n):
        return z3.If(T.card(o.space[n]) == T.nvars(N(o)), T.EmptyBN, T.PercNetObj(o.net, o.space[n]))

    def AV(c):
        return AvoidOf(c.child_motifs_reduced)

    def complete(c, cs, R):
        """cs is the COMPLETE deadlock list of the net reduced by R, outside the avoid list"""
        return T.IsEnum(cs, ReducedSol(c.pn_reduced, R, EMPTYS, AV(c)))

    def lemmas_cov(c):
        """L7 instances for this node (usable once the avoid list exists)"""
        o, n = entry(c), c.node_id
        Nn, S0, sg, sk = args_of(o, n)
        av = AV(c)
        cs, R = z3.Const("cs!7", LS.sort()), z3.Const("R!7", T.SpaceS)
        l7 = z3.ForAll([cs, R], z3.Implies(
            z3.And(T.IsEnum(cs, ReducedSol(c.pn_reduced, R, EMPTYS, av)), c.pn_reduced == pnr(o, n),
                   z3.ForAll([kn], z3.Implies(MemN(c.node_nfvs, kn), R[kn] >= 0))),
            CovRed(Nn, S0, sg, sk, av, cs)), patterns=[T.IsEnum(cs, ReducedSol(c.pn_reduced, R, EMPTYS, av))])
        return z3.And(l7, lift_ok(c, o, n, av))

    def lemma_empty_nfvs(c):
        """L7.empty_nfvs: without negative cycles every attractor is a fixed point, which lies inside a successor when the node has any"""
        o, n = entry(c), c.node_id
        Nn, S0, sg, sk = args_of(o, n)
        r0 = z3.Const("r!e", LS.sort())
        return z3.ForAll([r0], z3.Implies(z3.And(LN.len(c.node_nfvs) == 0, LS.len(c.child_motifs_reduced) != 0, LS.len(r0) == 0),
                                          S.Covers(Nn, S0, sg, sk, r0)), patterns=[S.Covers(Nn, S0, sg, sk, r0)])

    def lemma_fixed_point(c):
        """L3: in a node that fixes every variable the only state is the attractor"""
        o, n = entry(c), c.node_id
        Nn, S0, sg, sk = args_of(o, n)
        r0 = z3.Const("r!f", LS.sort())
        return z3.ForAll([r0], z3.Implies(z3.And(T.card(S0) == T.nvars(Nn), LS.len(r0) == 1, LS.at(r0)[0] == S0), S.Covers(Nn, S0, sg, sk, r0)),
                         patterns=[S.Covers(Nn, S0, sg, sk, r0)])

    def frag_post(c):
        """ASSUMED postcondition of the trusted fragment (lines 121-162: construction of the avoid list)"""
        o, n = entry(c), c.node_id
        A = c.child_motifs_reduced
        return [LS.len(A) >= 0,
                z3.ForAll([k_], z3.Implies(z3.And(0 <= k_, k_ < LS.len(A)), T.wf_space(LS.at(A)[k_]))),
                z3.Implies(z3.And(z3.Not(o.expanded[n]), z3.Not(o.skipped[n])), LS.len(A) == 0),
                c.node_is_pseudo_minimal == (LS.len(A) == 0),
                structure_unchanged(c.sd, o), S.inv_all(c.sd)]

    def post(c):
        v, o, n = c.sd, c.old.sd, c.node_id
        return [("covers_owned_attractors", S.Covers(*args_of(o, n), c.result)),
                ("only_percolation_caches_filled", structure_unchanged(v, o)), ("inv", S.inv_all(v))]

    def raise_post(c):
        return [("only_percolation_caches_filled", structure_unchanged(c.sd, c.old.sd)), ("inv", S.inv_all(c.sd))]

    def cfg(c, key):
        return getattr(entry(c), "cfg_" + key)

    def regen_inv(c):
        """regeneration loop: the retained set assigns exactly the NFVS variables visited so far and the candidate list is complete for it"""
        R, cs, nf, i = c.retained_set, c.candidate_states, c.node_nfvs, c.i
        L = cfg(c, "attractor_candidates_limit")
        return [
            ("retained_prefix", z3.ForAll([kn], (R[kn] >= 0) == z3.Exists([j_], z3.And(0 <= j_, j_ < i, LN.at(nf)[j_] == kn)))),
            ("wf", T.wf_space(R)),
            ("complete_or_initial", z3.Or(z3.And(i == 0, LS.len(cs) == 0, LN.len(nf) > 0), z3.And(complete(c, cs, R), LS.len(cs) < L))),
            ("structure", z3.And(structure_unchanged(c.sd, c.old.sd), S.inv_all(c.sd))),
        ]

    def sim_inv(c):
        o, n = entry(c), c.node_id
        return [("covers", CovRed(*args_of(o, n), AV(c), c.candidate_states)),
                ("iterations_positive", c.iterations >= 1),
                ("structure", z3.And(structure_unchanged(c.sd, c.old.sd), S.inv_all(c.sd)))]

    def sim_variant(c):
        # every round either removes a candidate or doubles `iterations` until iterations * #candidates exceeds the budget
        n = LS.len(c.candidate_states)
        return [n, z3.If(c.max_budget + 1 - c.iterations * n >= 0, c.max_budget + 1 - c.iterations * n, 0)]

    reg.add(Contract(
        "biobalm._sd_attractors.attractor_candidates.compute_attractor_candidates",
        params=old.params, result_type=LS, properties=("C08", "C01", "C05", "C15", "C13"),
        requires=[lambda c: S.inv_all(c.sd), lambda c: S.valid(c.sd, c.node_id), lambda c: z3.Not(c.pint_minification),
                  lambda c: z3.And(c.sd.cfg_attractor_candidates_limit >= 0, c.sd.cfg_minimum_simulation_budget >= 0)],
        modifies={"sd": CACHEF}, may_raise={"RuntimeError": {"modifies": {"sd": CACHEF}}},
        raises={"RuntimeError": [(nm, pick(raise_post, nm)) for nm in ["only_percolation_caches_filled", "inv"]]},
        ensures=[(nm, pick(post, nm)) for nm in ["covers_owned_attractors", "only_percolation_caches_filled", "inv"]],
        assumed_asserts=["not sd.node_is_minimal(node_id)"],
        trusted_fragments=[{
            "name": "avoid_list (children's reduced motifs; skip-node exclusions -- rule as written, known finding D12)",
            "first": "child_motifs_reduced = []", "last": "node_is_pseudo_minimal = len(child_motifs_reduced) == 0",
            "sha256": "0dfa8bc8ba871fafd196ee59fe637892f432e76825ea3b70f24d1af4af261b68",
            "assigns": {"child_motifs_reduced": LS, "node_is_pseudo_minimal": TBool},
            "ensures": frag_post}],
        lemmas=[("L7.retained_set+def.lift", lemmas_cov), ("L7.empty_nfvs", lemma_empty_nfvs), ("L3.fixed_point_node", lemma_fixed_point)],
        axioms=AX_AVOIDLIST + AX_MEMN,
        local_types={"candidate_states": LS, "retained_set": TSpace, "child_motifs_reduced": LS, "iterations": TInt, "reduced": LS,
                     "candidate_states_zero": LS, "candidate_states_one": LS, "max_budget": TInt},
        loops={1: LoopContract("for var in node_nfvs", regen_inv, havoc_heap={"sd": CACHEF},
                               lemmas=[("L7.retained_set+L7.empty_nfvs+def.lift", lemmas_cov)]),
               2: LoopContract("while len(candidate_states) > 0", sim_inv, havoc_heap={"sd": CACHEF}, variant=sim_variant,
                               lemmas=[("L7.retained_set+L7.empty_nfvs+def.lift", lemmas_cov)])},
        note="lines 121-162 (avoid list) are a TRUSTED FRAGMENT pinned by hash; phases 2-3 (options, thresholds, limits, minification) are verified",
    ))
    c_new = reg.contracts["biobalm._sd_attractors.attractor_candidates.compute_attractor_candidates"]
    c_new.body_lemmas = lemmas_cov


_le1, _le2, _X = z3.Const("l!e1", LS.sort()), z3.Const("l!e2", LS.sort()), z3.Const("X!e", T.SpaceSet)
AX_ISENUM_EMPTY = [z3.ForAll([_le1, _le2, _X], z3.Implies(z3.And(T.IsEnum(_le1, _X), LS.len(_le1) == 0, LS.len(_le2) == 0), T.IsEnum(_le2, _X)),
                             patterns=[z3.MultiPattern(T.IsEnum(_le1, _X), T.IsEnum(_le2, _X))])]


def install_helpers(reg):
    """bodies of the helpers of compute_attractor_candidates"""
    pick = lambda fn, nm: (lambda c: dict(fn(c))[nm])
    TR2 = TTuple(TSpace, LS)
    old = reg.contracts.pop("biobalm._sd_attractors.attractor_candidates.asp_greedy_retained_set_optimization")
    reg.by_name.pop("asp_greedy_retained_set_optimization", None)

    def pairs(c, R, cs):
        av = AvoidOf(c.avoid_dnf)
        R0, cs0 = (c.old.retained_set, c.old.candidate_states)
        return [("pair_preserved", z3.Implies(T.IsEnum(cs0, ReducedSol(c.petri_net, R0, EMPTYS, av)), T.IsEnum(cs, ReducedSol(c.petri_net, R, EMPTYS, av)))),
                ("same_variables", z3.ForAll([kn], (R[kn] >= 0) == (R0[kn] >= 0))),
                ("never_more_candidates", z3.And(LS.len(cs) <= LS.len(cs0), LS.len(cs) >= 0)),
                ("wf", T.wf_space(R))]

    def post(c):
        r = c.result
        return pairs(c, TR2.get(r, 0), TR2.get(r, 1))

    def inv_outer(c):
        return pairs(c, c.retained_set, c.candidate_states)

    def inv_inner(c):
        head = c.at_head(0, "candidate_states")
        return pairs(c, c.retained_set, c.candidate_states) + [
            ("iterating_the_entry_keys", z3.ForAll([kn], (c.coll[kn] >= 0) == (c.retained_set[kn] >= 0))),
            ("progress_recorded", z3.And(LS.len(c.candidate_states) <= LS.len(head), z3.Or(c.done, LS.len(c.candidate_states) < LS.len(head))))]

    reg.add(Contract(
        "biobalm._sd_attractors.attractor_candidates.asp_greedy_retained_set_optimization",
        params=old.params, result_type=TR2, properties=("C08", "C13"),
        requires=[lambda c: T.wf_space(c.retained_set), lambda c: LS.len(c.candidate_states) >= 0],
        may_raise={"RuntimeError": {}}, raises={"RuntimeError": []},
        ensures=[(nm, pick(post, nm)) for nm in ["pair_preserved", "same_variables", "never_more_candidates", "wf"]],
        axioms=AX_AVOIDLIST + AX_ISENUM_EMPTY,
        local_types={"retained_set": TSpace, "candidate_states": LS, "done": TBool, "retained_set_2": TSpace, "candidate_states_2": LS},
        loops={0: LoopContract("while not done", inv_outer,
                               variant=lambda c: [2 * LS.len(c.candidate_states) + z3.If(c.done, 0, 1)]),
               1: LoopContract("for var in retained_set", inv_inner)},
    ))


def install_helpers2(reg):
    pick = lambda fn, nm: (lambda c: dict(fn(c))[nm])
    old = reg.contracts.pop("biobalm._sd_attractors.attractor_candidates.make_heuristic_retained_set")
    reg.by_name.pop("make_heuristic_retained_set", None)

    def contains(eng, st, coll, x, node):
        if coll.ty == LN and x.ty == TName:
            return MemN(coll.t, x.t)
        return None
    reg.add_hook("contains", contains)
    # (the hook is consulted after the generic list case; make it take precedence for lists of names)
    reg.hooks["contains"].insert(0, reg.hooks["contains"].pop())

    def to_set(eng, st, v, node):
        if v.ty == LN:
            return Val(TSet(TName), z3.Lambda([kn], MemN(v.t, kn)))
        return None
    reg.add_hook("to_set", to_set)

    reg.add(Contract(
        "biobalm._sd_attractors.attractor_candidates.make_heuristic_retained_set",
        params=old.params, result_type=TSpace, properties=("C08",),
        requires=[lambda c: z3.ForAll([kn], z3.Implies(MemN(c.nfvs, kn), T.isvar(net_of(c.graph), kn))),
                  lambda c: z3.ForAll([k_], z3.Implies(z3.And(0 <= k_, k_ < LS.len(c.avoid_dnf)), T.wf_space(LS.at(c.avoid_dnf)[k_])))],
        ensures=[("assigns_exactly_the_nfvs", lambda c: z3.ForAll([kn], (c.result[kn] >= 0) == MemN(c.nfvs, kn))),
                 ("wf", lambda c: T.wf_space(c.result))],
        axioms=AX_MEMN,
        local_types={"retained_set": TSpace, "least_common_child_space": TSpace, "least_common_nodes": TInt, "common_nodes": TInt},
        loops={0: LoopContract("for child_space in avoid_dnf", lambda c: [
                    ("chosen_is_wf", T.wf_space(c.least_common_child_space)), ("empty_so_far", z3.ForAll([kn], c.retained_set[kn] < 0))]),
               1: LoopContract("for x in least_common_child_space", lambda c: [
                    ("only_nfvs", z3.ForAll([kn], z3.Implies(c.retained_set[kn] >= 0, MemN(c.nfvs, kn)))), ("wf", T.wf_space(c.retained_set))]),
               2: LoopContract("for x in nfvs", lambda c: [
                    ("only_nfvs", z3.ForAll([kn], z3.Implies(c.retained_set[kn] >= 0, MemN(c.nfvs, kn)))), ("wf", T.wf_space(c.retained_set)),
                    ("prefix_assigned", z3.ForAll([j_], z3.Implies(z3.And(0 <= j_, j_ < c.i), c.retained_set[LN.at(c.nfvs)[j_]] >= 0)))])},
    ))


def install_edge_accessors(reg):
    """edge_stable_motif / edge_all_stable_motifs verified against their bodies (C07, C08); call sites keep the pure view"""
    a_ = z3.Int("a!ea")
    old = reg.contracts["biobalm.succession_diagram.SuccessionDiagram.edge_stable_motif"]
    reg.add(Contract(
        "biobalm.succession_diagram.SuccessionDiagram.edge_stable_motif",
        params=old.params, defaults=old.defaults, result_type=TSpace, properties=("C08", "C07", "C06"),
        requires=[lambda c: c.self.edge[c.parent_id][c.child_id], lambda c: S.valid(c.self, c.parent_id)],
        ensures=[("stored_first_motif_optionally_without_the_parents_values", lambda c: c.result == z3.If(
            c.reduced, reduce_space(c.self.motif0[c.parent_id][c.child_id], c.self.space[c.parent_id]), c.self.motif0[c.parent_id][c.child_id])),
                 ("nothing_modified", lambda c: S.frame_nodes(c.self, c.old.self) if False else z3.And(
                     c.self.K == c.old.self.K, c.self.motif0 == c.old.self.motif0, c.self.space == c.old.self.space, c.self.edge == c.old.self.edge))],
        pure=old.pure), method_of="SD")

    def all_post(c):
        ms = c.self.motifs[c.parent_id][c.child_id]
        sp = c.self.space[c.parent_id]
        return z3.If(c.reduced,
                     z3.And(LS.len(c.result) == LS.len(ms), z3.ForAll([a_], z3.Implies(z3.And(0 <= a_, a_ < LS.len(ms)),
                                                                                         LS.at(c.result)[a_] == reduce_space(LS.at(ms)[a_], sp)))),
                     c.result == ms)
    reg.add(Contract(
        "biobalm.succession_diagram.SuccessionDiagram.edge_all_stable_motifs",
        params=[("self", SD), ("parent_id", TInt), ("child_id", TInt), ("reduced", TBool)], defaults={"reduced": False}, result_type=LS,
        properties=("C07", "C06"),
        requires=[lambda c: c.self.edge[c.parent_id][c.child_id], lambda c: S.valid(c.self, c.parent_id),
                  lambda c: LS.len(c.self.motifs[c.parent_id][c.child_id]) >= 0],
        ensures=[("all_recorded_motifs_in_order_optionally_without_the_parents_values", all_post)],
        local_types={"result": LS, "all_motifs": LS, "node_space": TSpace},
        loops={0: LoopContract("for m in all_motifs", lambda c: [
            ("reduced_prefix", z3.And(LS.len(c.local("result")) == c.i, z3.ForAll([a_], z3.Implies(
                z3.And(0 <= a_, a_ < c.i), LS.at(c.local("result"))[a_] == reduce_space(LS.at(c.all_motifs)[a_], c.node_space)))))])},
    ), method_of="SD")


def install_nfvs(reg):
    """node_percolated_nfvs verified against its body (C08, C16): cache discipline + the RIGHT feedback-vertex-set variant.
    feedback_vertex_set (AEON wrapper) is assumed: with parity 'negative' or without parity the result hits every negative cycle."""
    from pyvc import engine as E_

    def fvs_apply(eng, st, c, argmap, exprmap, node):
        bn = argmap["network"]
        if bn.ty != TNetObj:
            raise OutOfSubset("feedback_vertex_set(<not a BooleanNetwork>)")
        par = argmap.get("parity")
        res = LN.fresh("fvs")
        st.assume(LN.len(res.t) >= 0)
        st.assume(z3.ForAll([kn], z3.Implies(MemN(res.t, kn), T.isvar(bn_net_of(bn.t), kn))))
        st.assume(S.NamesOf(bn.t, res.t))
        if par is None or par.ty == TNoneLit or (isinstance(par, E_._StrLit) and par.s == "negative"):
            st.assume(NFVSOf(bn.t, res.t))          # a full FVS hits every cycle, in particular every negative one
        elif not (isinstance(par, E_._StrLit) and par.s == "positive"):
            raise OutOfSubset("feedback_vertex_set(parity=<not a literal>)")
        return res
    reg.add(Contract(
        "biobalm.interaction_graph_utils.feedback_vertex_set", trusted=True,
        params=[("network", None), ("parity", None), ("subgraph", None)], defaults={"parity": None, "subgraph": None},
        properties=("C08",), custom_apply=fvs_apply,
        note="ASSUMED (AEON RegulatoryGraph.feedback_vertex_set): the returned variables hit every cycle of the requested parity "
             "(every cycle when no parity is given); deterministic"))

    from .attractors import structure_unchanged
    pick = lambda fn, nm: (lambda c: dict(fn(c))[nm])
    identical_caches = lambda v, o: z3.And(v.pbn == o.pbn, v.pnfvs == o.pnfvs, v.ppn == o.ppn, structure_unchanged(v, o))
    old = reg.contracts["biobalm.succession_diagram.SuccessionDiagram.node_percolated_nfvs"]
    INV_ = ["inv." + nm for nm, _ in S.inv(M.View(_dummy_ho()))]
    reg.add(Contract(
        "biobalm.succession_diagram.SuccessionDiagram.node_percolated_nfvs",
        params=old.params, defaults=old.defaults, result_type=LN, properties=("C08", "C16", "C14"),
        requires=[lambda c: S.inv_all(c.self), lambda c: S.valid(c.self, c.node_id)],
        modifies={"self": ["pbn", "pnfvs"]},
        ensures=[("is_nfvs", lambda c: NFVSOf(T.PercNetObj(c.old.self.net, c.old.self.space[c.node_id]), c.result)),
                 ("names_of_percolated_network", lambda c: z3.ForAll([kn], z3.Implies(
                     MemN(c.result, kn), T.isvar(bn_net_of(T.PercNetObj(c.old.self.net, c.old.self.space[c.node_id])), kn)))),
                 ("cached_afterwards", lambda c: c.self.pnfvs[c.node_id] == M.OptLN.some(c.result)),
                 ("only_caches", lambda c: structure_unchanged(c.self, c.old.self))] +
                [(x, pick(lambda c: [("inv." + a, g) for a, g in S.inv(c.self)], x)) for x in INV_],
        raises={"KeyError": [("only_when_not_computed_and_not_asked_to", lambda c: z3.And(
            M.OptLN.is_none(c.old.self.pnfvs[c.node_id]), z3.Not(c.compute), identical_caches(c.self, c.old.self)))]},
        may_raise={"KeyError": {"when": lambda c: z3.Not(c.compute)}},
        axioms=[z3.ForAll([z3.Const("b!no", T.BNS), z3.Const("l!no", LN.sort())], S.NamesOf(z3.Const("b!no", T.BNS), z3.Const("l!no", LN.sort())) == z3.ForAll(
            [kn], z3.Implies(MemN(z3.Const("l!no", LN.sort()), kn), T.isvar(bn_net_of(z3.Const("b!no", T.BNS)), kn))),
            patterns=[S.NamesOf(z3.Const("b!no", T.BNS), z3.Const("l!no", LN.sort()))])],
        lemmas=[("L5.full_space_percolates_to_empty_network", lambda c: z3.Implies(
            T.card(c.self.space[c.node_id]) == T.nvars(bn_net_of(c.self.net)), T.PercNetObj(c.self.net, c.self.space[c.node_id]) == T.EmptyBN))],
        note="cache discipline and choice of the FVS variant; the FVS computation itself is AEON's (assumed)"), method_of="SD")


# ====================================================================== compute_attractor_candidates: the avoid list (second contract `#avoid_list`)
def install_avoid_list(reg):
    """What the main contract of compute_attractor_candidates keeps as a pinned fragment (lines 121-162) is verified here: the list of spaces the
    candidate search avoids is the reduced first motif of every successor (in the order node_successors lists them) followed - for a skip node -
    by the reduced common subspace with every non-ancestor node whose cached candidates or seeds are the EMPTY list, in node-id order (the rule
    as written; its soundness is the known finding D12 and is not claimed). Everything after the avoid list is skipped in THIS contract (it is
    verified in the main one)."""
    main = reg.contracts["biobalm._sd_attractors.attractor_candidates.compute_attractor_candidates"]
    k_ = z3.Int("k!al")
    SpArr = z3.ArraySort(I, T.SpaceS)
    OArr = M.TArr(M.OptLS).sort()
    FoldM = z3.Function("al_skip_exclusions", SpArr, OArr, OArr, T.SpaceS, LS.sort(), I, LS.sort())   # (spaces, cand, seeds, node space, base, k)
    sp_, ca_, se_, ns_, b_, n_ = (z3.Const("sp!al", SpArr), z3.Const("ca!al", OArr), z3.Const("se!al", OArr), z3.Const("ns!al", T.SpaceS),
                                   z3.Const("b!al", LS.sort()), z3.Int("n!al"))

    def append(l, x):
        return LS.mk(LS.len(l) + 1, z3.Store(LS.at(l), LS.len(l), x))

    def rule(ns, sp, ca, se, m):
        is_empty = lambda o: z3.And(z3.Not(M.OptLS.is_none(o)), LS.len(M.OptLS.val(o)) == 0)
        return z3.And(z3.Not(T.subspace(ns, sp[m])), z3.Or(is_empty(ca[m]), is_empty(se[m])),
                      z3.Not(z3.Exists([kn], z3.And(ns[kn] >= 0, sp[m][kn] >= 0, ns[kn] != sp[m][kn]))))

    AX = [
        z3.ForAll([sp_, ca_, se_, ns_, b_], FoldM(sp_, ca_, se_, ns_, b_, 0) == b_, patterns=[FoldM(sp_, ca_, se_, ns_, b_, 0)]),
        z3.ForAll([sp_, ca_, se_, ns_, b_, n_], z3.Implies(n_ >= 0, FoldM(sp_, ca_, se_, ns_, b_, n_ + 1) == z3.If(
            rule(ns_, sp_, ca_, se_, n_),
            append(FoldM(sp_, ca_, se_, ns_, b_, n_), reduce_space(T.union(ns_, sp_[n_]), ns_)),
            FoldM(sp_, ca_, se_, ns_, b_, n_))), patterns=[FoldM(sp_, ca_, se_, ns_, b_, n_ + 1)]),
    ]

    def O(c):
        return c.old.sd if c.old is not None else c.sd

    def frame(c):
        return z3.And(structure_unchanged(c.sd, c.old.sd), S.inv_all(c.sd))

    def fold(c, base, k):
        o = O(c)
        return FoldM(o.space, o.cand, o.seeds, o.space[c.node_id], base, k)

    def children_part(c):
        """[edge_stable_motif(node, s, reduced=True) for s in children] as a term (the comprehension's own value)"""
        o, n = O(c), c.node_id
        ch = c.local("children")
        i = z3.Int("ci!")
        return LS.mk(LI.len(ch), z3.Lambda([i], reduce_space(o.motif0[n][LI.at(ch)[i]], o.space[n])))

    def post(c):
        o, n = O(c), c.node_id
        if not c.has_local("child_motifs_reduced"):
            return T.card(o.space[n]) == T.nvars(N(o))        # the early return for a node that fixes every variable: no avoid list is built
        A = c.local("child_motifs_reduced")
        try:
            base = children_part(c)
            cl = [o.expanded[n]]
        except (KeyError, AttributeError):
            base = LS.empty().t
            cl = [z3.Not(o.expanded[n])]
        if c.passed_loop(0):
            cl += [o.skipped[n], A == fold(c, base, o.K)]
        else:
            cl += [z3.Not(o.skipped[n]), A == base]
        cl.append(c.local("node_is_pseudo_minimal") == (LS.len(A) == 0))
        return z3.And(cl)

    def inv0(c):
        base = c.entry_local(0, "child_motifs_reduced")
        return [("exclusions_of_the_visited_nodes_by_the_rule_as_written", c.child_motifs_reduced == fold(c, base, c.i)),
                ("index", c.i >= 0), ("node_space", c.node_space == O(c).space[c.node_id]), ("frame", frame(c))]

    def lem_ext(c):
        """array extensionality for the appended space (hint only)"""
        rq, kq = z3.Const("r!alx", T.SpaceS), z3.Const("k!alx", Name)
        o = O(c)
        u = reduce_space(T.union(o.space[c.node_id], o.space[c.i]), o.space[c.node_id])
        return z3.ForAll([rq], z3.Or(rq == u, z3.Exists([kq], rq[kq] != u[kq])), patterns=[append(c.child_motifs_reduced, rq)])

    reg.add(Contract(
        "biobalm._sd_attractors.attractor_candidates.compute_attractor_candidates#avoid_list",
        params=main.params, properties=("C05", "C08"),
        requires=list(main.requires) + [lambda c: c.sd.cfg_max_motifs_per_node >= 0], modifies={"sd": CACHEF},
        may_raise={"RuntimeError": {"modifies": {"sd": CACHEF}}}, raises={"RuntimeError": []},
        ensures=[("avoid_list_is_children_motifs_then_skip_exclusions_by_the_rule_as_written", post), ("frame", frame)],
        axioms=AX,
        local_types={"child_motifs_reduced": LS, "children": LI, "node_space": TSpace, "reduced_subspace": TSpace, "total_skip_nodes_applied": TInt},
        loops={0: LoopContract("for n in sd.node_ids()", inv0)},
        trusted_fragments=[{"name": "everything after the avoid list (verified in the main contract of the function)",
                            "first": "if len(node_nfvs) == 0:", "last": "return candidate_states", "sha256": None, "assigns": {}, "ensures": lambda c: []}],
        note="pins WHICH spaces are avoided; that avoiding them loses no attractor is the main contract (children) and the known finding D12 (skip exclusions)"))
