"""Contracts for the attractor layer: SuccessionDiagram.node_attractor_* (cache logic) and the call-site
contracts of biobalm/_sd_attractors/*. Sidecar; no repository code."""
import z3
from pyvc.vtypes import *
from pyvc.contract import Contract, LoopContract, HeapParam
from pyvc import theory as T
from pyvc import sdmodel as M
from . import sd_inv as S
from .succession_diagram import _dummy_ho

SD = HeapParam("SD")
LS, LV, OptLS, OptLV = M.LS, M.LV, M.OptLS, M.OptLV
i_ = z3.Int("i")
NODEF = ("space", "expanded", "skipped", "parent", "cand", "seeds", "sets", "ppn", "pbn", "pnfvs")
CACHEF = ["ppn", "pbn", "pnfvs"]
RES2 = TTuple(LS, OptLV)
RES2b = TTuple(LS, LV)


def N(v):
    return S.net(v)


def args_of(v, n):
    return (N(v), v.space[n], v.succsig[n], v.skipped[n])


def structure_unchanged(v, o, attractor_fields_of=None):
    """nothing but caches changes; attractor caches only at node `attractor_fields_of`"""
    cl = [v.K == o.K, v.index == o.index, S.frame_edges(v, o), v.net == o.net, v.sym == o.sym, v.pn == o.pn,
          S.frame_nodes(v, o, fields=("space", "expanded", "skipped", "parent", "succsig", "depth"))]
    if attractor_fields_of is None:
        cl.append(S.frame_nodes(v, o, fields=("cand", "seeds", "sets")))
    else:
        cl.append(S.frame_nodes(v, o, except_ids=(attractor_fields_of,), fields=("cand", "seeds", "sets")))
    return z3.And(cl)


def install(reg):
    INVN = [nm for nm, _ in S.inv(M.View(_dummy_ho()))]
    pick = lambda fn, nm: (lambda c: dict(fn(c))[nm])

    # ---------------------------------------------------------------- assumed for now: the three computations
    def cac_post(c):
        v, o, n = c.sd, c.old.sd, c.node_id
        return [("covers_owned_attractors", S.Covers(*args_of(o, n), c.result)),
                ("only_percolation_caches_filled", structure_unchanged(v, o))] + [("inv." + nm, g) for nm, g in S.inv(v)]

    reg.add(Contract(
        "biobalm._sd_attractors.attractor_candidates.compute_attractor_candidates", trusted=True,
        params=[("sd", SD), ("node_id", TInt), ("greedy_asp_minification", TBool), ("simulation_minification", TBool), ("pint_minification", TBool)],
        result_type=LS, properties=("C08", "C01", "C05", "C15"),
        requires=[lambda c: S.inv_all(c.sd), lambda c: S.valid(c.sd, c.node_id)],
        modifies={"sd": CACHEF}, may_raise={"RuntimeError": {"modifies": {"sd": CACHEF}}},
        raises={"RuntimeError": [(nm, pick(lambda c: [("only_percolation_caches_filled", structure_unchanged(c.sd, c.old.sd))] +
                                                     [("inv." + x, g) for x, g in S.inv(c.sd)], nm))
                                 for nm in ["only_percolation_caches_filled"] + ["inv." + x for x in INVN]]},
        ensures=[(nm, pick(cac_post, nm)) for nm in ["covers_owned_attractors", "only_percolation_caches_filled"] + ["inv." + x for x in INVN]],
        note="retained-set reduction + minification (L7 cited)",
    ))

    def cas_post(c):
        v, o, n, r = c.sd, c.old.sd, c.node_id, c.result
        return [("seeds_are_representatives", S.IsSDR(*args_of(o, n), RES2.get(r, 0))),
                ("sets_match_seeds", z3.Implies(z3.Not(OptLV.is_none(RES2.get(r, 1))), S.SetsOf(N(o), o.space[n], RES2.get(r, 0), OptLV.val(RES2.get(r, 1))))),
                ("sets_present_unless_seeds_only", z3.Implies(z3.Not(c.seeds_only), z3.Not(OptLV.is_none(RES2.get(r, 1))))),
                ("representatives_are_kept_in_order", z3.Implies(S.IsSDR(*args_of(o, n), c.candidate_states), RES2.get(r, 0) == c.candidate_states)),
                ("only_percolation_caches_filled", structure_unchanged(v, o))] + [("inv." + nm, g) for nm, g in S.inv(v)]

    reg.add(Contract(
        "biobalm._sd_attractors.attractor_symbolic.compute_attractors_symbolic", trusted=True,
        params=[("sd", SD), ("node_id", TInt), ("candidate_states", LS), ("seeds_only", TBool)], defaults={"seeds_only": False},
        result_type=RES2, properties=("C01", "C12"),
        requires=[lambda c: S.inv_all(c.sd), lambda c: S.valid(c.sd, c.node_id),
                  lambda c: S.Covers(*args_of(c.sd, c.node_id), c.candidate_states)],
        modifies={"sd": CACHEF},
        ensures=[(nm, pick(cas_post, nm)) for nm in ["seeds_are_representatives", "sets_match_seeds", "sets_present_unless_seeds_only",
                                                      "representatives_are_kept_in_order", "only_percolation_caches_filled"] + ["inv." + x for x in INVN]],
        note="exact filtering of candidates by symbolic reachability (AEON set operations assumed)",
    ))

    def fb_post(c):
        v, o, n, r = c.sd, c.old.sd, c.node_id, c.result
        return [("seeds_are_representatives", S.IsSDR(*args_of(o, n), RES2b.get(r, 0))),
                ("sets_match_seeds", S.SetsOf(N(o), o.space[n], RES2b.get(r, 0), RES2b.get(r, 1))),
                ("only_percolation_caches_filled", structure_unchanged(v, o))] + [("inv." + nm, g) for nm, g in S.inv(v)]

    reg.add(Contract(
        "biobalm._sd_attractors.attractor_symbolic.symbolic_attractor_fallback", trusted=True,
        params=[("sd", SD), ("node_id", TInt)], result_type=RES2b, properties=("C12",),
        requires=[lambda c: S.inv_all(c.sd), lambda c: S.valid(c.sd, c.node_id)],
        modifies={"sd": CACHEF},
        ensures=[(nm, pick(fb_post, nm)) for nm in ["seeds_are_representatives", "sets_match_seeds", "only_percolation_caches_filled"] + ["inv." + x for x in INVN]],
        note="transition-guided reduction + Xie-Beerel (AEON, assumed)",
    ))

    # ---------------------------------------------------------------- node_attractor_candidates (verified)
    def cache_frame(v, o, n, fields):
        """besides percolation caches, only the listed attractor fields of node n may change"""
        keep = [f for f in ("cand", "seeds", "sets") if f not in fields]
        return z3.And(v.K == o.K, v.index == o.index, S.frame_edges(v, o), v.net == o.net, v.sym == o.sym, v.pn == o.pn,
                      S.frame_nodes(v, o, fields=("space", "expanded", "skipped", "parent", "succsig", "depth")),
                      S.frame_nodes(v, o, except_ids=(n,), fields=("cand", "seeds", "sets")),
                      *[getattr(v, f)[n] == getattr(o, f)[n] for f in keep])

    def nac_post(c):
        v, o, n = c.self, c.old.self, c.node_id
        return [("result_covers_owned_attractors", S.Covers(*args_of(o, n), c.result)),
                ("result_is_the_cached_list", z3.If(z3.And(OptLS.is_none(o.cand[n]), z3.Not(OptLS.is_none(o.seeds[n]))),
                                                    z3.And(c.result == OptLS.val(o.seeds[n]), v.cand[n] == o.cand[n], v.seeds[n] == o.seeds[n]),
                                                    v.cand[n] == OptLS.some(c.result))),
                ("known_data_never_overwritten", z3.And(
                    z3.Implies(z3.Not(OptLS.is_none(o.cand[n])), v.cand[n] == o.cand[n]),
                    z3.Implies(z3.Not(OptLS.is_none(o.seeds[n])), v.seeds[n] == o.seeds[n]))),
                ("frame", cache_frame(v, o, n, ("cand", "seeds")))] + [("inv." + nm, g) for nm, g in S.inv(v)]

    def unchanged_but_caches(c):
        return [("nothing_cached", z3.And(structure_unchanged(c.self, c.old.self)))] + [("inv." + x, g) for x, g in S.inv(c.self)]

    reg.add(Contract(
        "biobalm.succession_diagram.SuccessionDiagram.node_attractor_candidates",
        params=[("self", SD), ("node_id", TInt), ("compute", TBool), ("greedy_asp_minification", TBool), ("simulation_minification", TBool), ("pint_minification", TBool)],
        defaults={"compute": False, "greedy_asp_minification": True, "simulation_minification": True, "pint_minification": False},
        result_type=LS, properties=("C14", "C08", "C01", "C15", "C16"),
        requires=[lambda c: S.inv_all(c.self), lambda c: S.valid(c.self, c.node_id), lambda c: z3.Not(c.pint_minification), lambda c: z3.And(c.self.cfg_attractor_candidates_limit >= 0, c.self.cfg_minimum_simulation_budget >= 0)],
        modifies={"self": CACHEF + ["cand", "seeds"]},
        may_raise={"RuntimeError": {"modifies": {"self": CACHEF}, "when": lambda c: c.compute},
                   "KeyError": {"only_when": lambda c: z3.And(z3.Not(c.compute), OptLS.is_none(c.self.cand[c.node_id]), OptLS.is_none(c.self.seeds[c.node_id]))}},
        raises={"RuntimeError": [(nm, pick(unchanged_but_caches, nm)) for nm in ["nothing_cached"] + ["inv." + x for x in INVN]],
                "KeyError": [("nothing_changed", lambda c: z3.And(structure_unchanged(c.self, c.old.self), c.self.ppn == c.old.self.ppn,
                                                                  c.self.pbn == c.old.self.pbn, c.self.pnfvs == c.old.self.pnfvs))]},
        ensures=[(nm, pick(nac_post, nm)) for nm in ["result_covers_owned_attractors", "result_is_the_cached_list", "known_data_never_overwritten", "frame"] + ["inv." + x for x in INVN]],
        local_types={"candidates": OptLS},
    ), method_of="SD")

    # ---------------------------------------------------------------- node_attractor_seeds (verified)
    def nas_post(c):
        v, o, n = c.self, c.old.self, c.node_id
        return [("result_is_system_of_representatives", S.IsSDR(*args_of(o, n), c.result)),
                ("cached_afterwards", v.seeds[n] == OptLS.some(c.result)),
                ("known_seeds_returned_unchanged", z3.Implies(z3.Not(OptLS.is_none(o.seeds[n])), z3.And(c.result == OptLS.val(o.seeds[n]), v.sets[n] == o.sets[n], v.cand[n] == o.cand[n]))),
                ("frame", cache_frame(v, o, n, ("cand", "seeds", "sets")))] + [("inv." + nm, g) for nm, g in S.inv(v)]

    reg.add(Contract(
        "biobalm.succession_diagram.SuccessionDiagram.node_attractor_seeds",
        params=[("self", SD), ("node_id", TInt), ("compute", TBool), ("symbolic_fallback", TBool)],
        defaults={"compute": False, "symbolic_fallback": False},
        result_type=LS, properties=("C14", "C01", "C15", "C16", "C12"),
        requires=[lambda c: S.inv_all(c.self), lambda c: S.valid(c.self, c.node_id), lambda c: z3.And(c.self.cfg_attractor_candidates_limit >= 0, c.self.cfg_minimum_simulation_budget >= 0)],
        modifies={"self": CACHEF + ["cand", "seeds", "sets"]},
        may_raise={"RuntimeError": {"modifies": {"self": CACHEF}, "when": lambda c: z3.And(c.compute, z3.Not(c.symbolic_fallback))},
                   "KeyError": {"only_when": lambda c: z3.And(z3.Not(c.compute), OptLS.is_none(c.self.seeds[c.node_id]))}},
        raises={"RuntimeError": [(nm, pick(unchanged_but_caches, nm)) for nm in ["nothing_cached"] + ["inv." + x for x in INVN]],
                "KeyError": [("nothing_changed", lambda c: z3.And(structure_unchanged(c.self, c.old.self), c.self.ppn == c.old.self.ppn,
                                                                  c.self.pbn == c.old.self.pbn, c.self.pnfvs == c.old.self.pnfvs))]},
        ensures=[(nm, pick(nas_post, nm)) for nm in ["result_is_system_of_representatives", "cached_afterwards", "known_seeds_returned_unchanged", "frame"] + ["inv." + x for x in INVN]],
        local_types={"seeds": OptLS, "candidates": LS, "sets": LV},
    ), method_of="SD")


def install_sets(reg):
    INVN = [nm for nm, _ in S.inv(M.View(_dummy_ho()))]
    pick = lambda fn, nm: (lambda c: dict(fn(c))[nm])

    def cache_frame(v, o, n, fields):
        keep = [f for f in ("cand", "seeds", "sets") if f not in fields]
        return z3.And(v.K == o.K, v.index == o.index, S.frame_edges(v, o), v.net == o.net, v.sym == o.sym, v.pn == o.pn,
                      S.frame_nodes(v, o, fields=("space", "expanded", "skipped", "parent", "succsig", "depth")),
                      S.frame_nodes(v, o, except_ids=(n,), fields=("cand", "seeds", "sets")),
                      *[getattr(v, f)[n] == getattr(o, f)[n] for f in keep])

    def post(c):
        v, o, n = c.self, c.old.self, c.node_id
        return [("sets_of_the_nodes_seeds_in_order", z3.And(z3.Not(OptLS.is_none(v.seeds[n])), S.SetsOf(N(o), o.space[n], OptLS.val(v.seeds[n]), c.result))),
                ("seeds_are_representatives", S.IsSDR(*args_of(o, n), OptLS.val(v.seeds[n]))),
                ("cached_afterwards", v.sets[n] == OptLV.some(c.result)),
                ("known_sets_returned_unchanged", z3.Implies(z3.Not(OptLV.is_none(o.sets[n])), z3.And(c.result == OptLV.val(o.sets[n]), v.seeds[n] == o.seeds[n]))),
                ("frame", cache_frame(v, o, n, ("cand", "seeds", "sets")))] + [("inv." + nm, g) for nm, g in S.inv(v)]

    def unchanged_but_caches(c):
        return [("nothing_cached", z3.And(structure_unchanged(c.self, c.old.self)))] + [("inv." + x, g) for x, g in S.inv(c.self)]

    reg.add(Contract(
        "biobalm.succession_diagram.SuccessionDiagram.node_attractor_sets",
        params=[("self", SD), ("node_id", TInt), ("compute", TBool)], defaults={"compute": False},
        result_type=LV, properties=("C12", "C14", "C16"),
        requires=[lambda c: S.inv_all(c.self), lambda c: S.valid(c.self, c.node_id), lambda c: z3.And(c.self.cfg_attractor_candidates_limit >= 0, c.self.cfg_minimum_simulation_budget >= 0)],
        modifies={"self": CACHEF + ["cand", "seeds", "sets"]},
        may_raise={"RuntimeError": {"modifies": {"self": CACHEF}, "when": lambda c: c.compute},
                   "KeyError": {"only_when": lambda c: z3.And(z3.Not(c.compute), OptLV.is_none(c.self.sets[c.node_id]))}},
        raises={"RuntimeError": [(nm, pick(unchanged_but_caches, nm)) for nm in ["nothing_cached"] + ["inv." + x for x in INVN]],
                "KeyError": [("nothing_changed", lambda c: z3.And(structure_unchanged(c.self, c.old.self), c.self.ppn == c.old.self.ppn,
                                                                  c.self.pbn == c.old.self.pbn, c.self.pnfvs == c.old.self.pnfvs))]},
        ensures=[(nm, pick(post, nm)) for nm in ["sets_of_the_nodes_seeds_in_order", "seeds_are_representatives", "cached_afterwards",
                                                  "known_sets_returned_unchanged", "frame"] + ["inv." + x for x in INVN]],
        ann_types={"tuple[list[BooleanSpace],list[VertexSet]|None]": RES2},
        local_types={"sets": OptLV, "seeds": LS, "result": RES2},
    ), method_of="SD")


def install_mark_expanded(reg):
    """_sd_algorithms.expand_source_SCCs._mark_expanded: the one place where the component-wise driver turns a node into an expanded one (C14: a stub that gains
    successors loses the attractor data computed while it had none). The diagram invariant is NOT required or promised here - the caller adds the successors
    around this call (attach_scc_subdiagram, outside the contracts) - only the effect on the node and the frame."""
    def post(c):
        v, o, n = c.sd, c.old.sd, c.node_id
        return [("marked_expanded", v.expanded[n]),
                ("stale_attractor_data_dropped", z3.Implies(z3.Not(o.expanded[n]), z3.And(OptLS.is_none(v.cand[n]), OptLS.is_none(v.seeds[n]), OptLV.is_none(v.sets[n])))),
                ("data_of_an_expanded_node_kept", z3.Implies(o.expanded[n], z3.And(v.cand[n] == o.cand[n], v.seeds[n] == o.seeds[n], v.sets[n] == o.sets[n]))),
                ("frame", z3.And(v.K == o.K, v.index == o.index, S.frame_edges(v, o), v.net == o.net, v.sym == o.sym, v.pn == o.pn,
                                 S.frame_nodes(v, o, except_ids=(n,)),
                                 S.frame_nodes(v, o, fields=("space", "skipped", "parent", "ppn", "pbn", "pnfvs", "succsig", "depth"))))]
    pick = lambda fn, nm: (lambda c: dict(fn(c))[nm])
    reg.add(Contract(
        "biobalm._sd_algorithms.expand_source_SCCs._mark_expanded", params=[("sd", SD), ("node_id", TInt)], properties=("C14",),
        requires=[lambda c: S.valid(c.sd, c.node_id)],
        modifies={"sd": ["expanded", "cand", "seeds", "sets"]},
        ensures=[(nm, pick(post, nm)) for nm in ["marked_expanded", "stale_attractor_data_dropped", "data_of_an_expanded_node_kept", "frame"]],
        note="expanded flag set; attractor candidates / seeds / sets dropped iff the node was a stub; nothing else changes"))
