"""Per-property metadata used by ./check: how the property is decided, which clauses this family
cannot reach (excluded), and extra trusted-base entries. A property is *claimed* iff it is listed here."""

PROPERTIES = {
    "C11": {
        "decided_by": "postconditions of intersect / is_subspace / function_eval / percolate_space_strict over the "
                      "three-valued evaluation EvalOn and the strict least fixed point (lemma L1 instances); "
                      "percolate_space is a wrapper around AEON's Percolation.percolate_subspace (assumed = Perc, "
                      "bounded conformance); single-node LDOI / driver queries are comprehensions over it",
        "excluded": [],
        "trusted": ["AEON Percolation.percolate_subspace computes Perc (assumed; exercised by the bounded conformance sweep)"],
    },
}

# Properties not (yet) claimed, with the reason recorded in MANIFEST.json.
NOT_APPLICABLE = {}
