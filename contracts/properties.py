"""Per-property metadata used by ./check: how the property is decided, which clauses this family
cannot reach (excluded), and extra trusted-base entries. A property is *claimed* iff it is listed here."""

PROPERTIES = {
    "C11": {
        "decided_by": "postconditions of intersect / is_subspace / function_eval / percolate_space_strict over the "
                      "three-valued evaluation EvalOn and the strict least fixed point (lemma L1 instances); "
                      "percolate_space is a wrapper around AEON's Percolation.percolate_subspace (assumed = Perc, "
                      "bounded conformance); single-node LDOI / driver queries are comprehensions over it",
        "excluded": [],
        "trusted": ["AEON Percolation.percolate_subspace computes Perc (assumed; exercised by the bounded conformance sweep)"],
    },
    "C02": {
        "decided_by": "SuccessionDiagram invariant (I-ids, I-key, I-space, I-root, I-stub, I-norm, I-edge.rank, I-depth) required and "
                      "ensured by _ensure_edge, _ensure_node, _expand_one_node, node_successors, expand_bfs; I-norm pins the exact "
                      "sequence of (stable motif, percolated child) pairs of every normally expanded node to the key-sorted "
                      "enumeration of its maximal trap spaces (ghost successor signature); expand_bfs returns True only when every "
                      "node reachable from the start node is expanded",
        "excluded": [],
        "trusted": ["trappist call-site contract (solver enumerates TrapSol; L4/L5 glue to MaxTrapSet)", "percolate_space = Perc", "space_unique_key = SKey (L10 injective)"],
    },
    "C04": {
        "decided_by": "data-structure invariant after every operation: _expand_one_node / node_successors / expand_bfs require and ensure the "
                      "full invariant and the monotone-extension relation ext(new, old) (an expanded node never changes: same successor "
                      "signature, edges, motifs, caches); transitivity of ext is a schema lemma proved by SMT on every run, so the claim "
                      "holds for every interleaving by induction on the call sequence",
        "excluded": ["confluence with a fresh full expansion is the corollary I-norm + expand_bfs completeness (lemma c04_confluence, not mechanised)"],
        "trusted": ["trappist call-site contract", "percolate_space = Perc", "space_unique_key = SKey"],
    },
    "C10": {
        "decided_by": "restrict_petrinet_to_subspace: full characterisation of the node and edge sets of the result for an arbitrary "
                      "(uninterpreted) net and subspace, all five loops with invariants; argument untouched (functional value model)",
        "excluded": ["network_to_petrinet / _create_transitions / percolate_network: assumed AEON BDD operations dominate; bounded stand-in only"],
        "trusted": ["networkx DiGraph operations", "L5: the syntactic characterisation implies Encodes(restrict(p,T), N, S∪T) (cited; bounded validation)"],
    },
    "C14": {
        "decided_by": "I-cache (CacheOK relative to the ghost successor signature of each node) is part of the invariant ensured by "
                      "_ensure_node, _expand_one_node (caches_discarded + raises.nothing_cached), node_successors, reclaim_node_data; "
                      "CacheOK(none, none, none) is the only axiom that re-establishes it after a successor is added",
        "excluded": ["skip paths, source shortcuts and sub-diagram attachment are decided by the bounded stand-in only (contracts not yet written)"],
        "trusted": ["meaning of CacheOK (each non-None cache field is correct for the current successor signature)"],
    },
    "C15": {
        "decided_by": "exceptional postconditions: _expand_one_node / node_successors raising RuntimeError leave the full invariant, the node "
                      "unexpanded without successors and with no cached attractor data, and every other node untouched; expand_bfs: "
                      "True => every reachable node expanded, False => a limit was given and (size limit) an unexpanded node exists",
        "excluded": ["identity of greedy partial diagrams across interrupted/uninterrupted runs (two-run property)"],
        "trusted": ["trappist may raise RuntimeError without modifying anything (clingo failure model)", "max_motifs_per_node >= 0"],
    },
    "C16": {
        "decided_by": "reclaim_node_data: frame postcondition (only percolated network / Petri net / NFVS dropped, candidates dropped only "
                      "where seeds are known; spaces, edges, motifs, flags, seeds, sets untouched) and invariant preservation; "
                      "restrict_petrinet_to_subspace is a function of its arguments (recomputation gives the same value)",
        "excluded": ["pickle round trip (__getstate__/__setstate__): dictionary unpacking and AEON text round trip are outside the subset; bounded stand-in only"],
        "trusted": ["pickle, AEON to_aeon/from_aeon"],
    },
    "C20": {
        "decided_by": "_update_node_depth (recursive; satisfied edges stay satisfied, node depth exact, nodes not below unchanged), "
                      "_ensure_edge (edge-consistency of depths restored after every new edge), depth() = maximum, __len__ / node_ids / "
                      "stub_ids / expanded_ids contiguous ids, find_node exact match via key injectivity (L10), node_is_minimal",
        "excluded": ["summary()/build() text output and is_subgraph/is_isomorphic: bounded stand-in only (string building outside the subset)"],
        "trusted": ["space_unique_key = SKey (L10)", "networkx"],
    },
    "C03": {
        "decided_by": "none-spurious / none-duplicated from the invariant (I-norm, I-key) of the verified expansion core; none-missing for BFS "
                      "from expand_bfs's postcondition (True => every reachable node expanded) and node_is_minimal = expanded leaf; "
                      "block / SCC / minimal-space / attractor-seed strategies and the skip paths: bounded stand-in only",
        "excluded": [],
        "trusted": ["L3/L12 (Lean): leaves of the full diagram are the minimal trap spaces", "L13 (cited): block / source-SCC independence"],
    },
    "C01": {"decided_by": "contracts for the attractor layer are not yet discharged; this property is currently decided by the bounded stand-in "
                          "(brute-force attractors vs seeds for all complete strategies)", "excluded": [], "trusted": ["L7, L13 (cited)"]},
    "C05": {"decided_by": "bounded stand-in (skip-node histories on motif-avoidant networks vs brute-force attractors); the per-node skip-exclusion "
                          "obligation is known to fail (D12, known finding)", "excluded": [], "trusted": []},
    "C06": {"decided_by": "bounded stand-in (every reported intervention simulated on the overridden network)", "excluded": [], "trusted": ["L11 (Lean): LDOI theorem"]},
    "C07": {"decided_by": "_ensure_edge (every stable motif of an edge is recorded exactly once, in order) is proved; find_drivers / "
                          "successions_to_target: bounded stand-in against brute-force minimal driver sets and path enumeration",
            "excluded": ["completeness with skip_feedforward_successions=True (order dependent)"], "trusted": []},
    "C08": {"decided_by": "bounded stand-in over all four option combinations and small / zero configuration values", "excluded": [], "trusted": ["L7 (cited)"]},
    "C09": {"decided_by": "bounded stand-in: solver output vs brute-force trap spaces / fixed points / reduced-STG deadlocks for all problem kinds, "
                          "time directions, ensure / avoid subspaces, source lists and limits", "excluded": [], "trusted": ["clingo enumeration modes", "L4, L9 (Lean)"]},
    "C12": {"decided_by": "bounded stand-in (attractor sets vs brute-force terminal SCCs; fallback vs default)", "excluded": [], "trusted": []},
    "C13": {"decided_by": "percolate_space_strict is within the subset (its loops are cut at invariants; variants not yet stated); all other "
                          "termination claims: bounded stand-in with a per-case wall-clock limit", "excluded": [], "trusted": ["every external call terminates"]},
    "C17": {"decided_by": "bounded stand-in (metamorphic: rename / reorder / re-encode / negate, sanitisation clashes)", "excluded": ["equality of the three AEON parsers"],
            "trusted": ["L-equivariance (not mechanised)"]},
    "C18": {"decided_by": "bounded stand-in (disjoint unions, input valuations, published models <= 12 variables vs AEON attractors)",
            "excluded": ["agreement with an independent computation on large models is empirical by nature"], "trusted": ["L14 (Lean): products"]},
    "C19": {"decided_by": "order-independence: every verified loop over a set / dict is proved for an arbitrary iteration order (percolate_space_strict, "
                          "restrict_petrinet_to_subspace) and its postcondition determines the result uniquely; whole-diagram reproducibility across "
                          "hash seeds: bounded stand-in", "excluded": [], "trusted": ["AEON / clingo / networkx deterministic"]},
}

# Properties not (yet) claimed, with the reason recorded in MANIFEST.json.
NOT_APPLICABLE = {}
