"""Per-property metadata used by ./check and tools/gen_manifest.py: which contracts carry the property (proved part),
what only the bounded stand-in decides, which clauses this family cannot reach (excluded), and extra trusted-base
entries.  A property is *claimed* iff it is listed in PROPERTIES.  The function lists themselves are not kept here:
they are the `properties=` tags of the contracts (contracts/*.py, contracts/__init__.py EXTRA_TAGS) and are written to
the evidence file by every run."""

PROPERTIES = {
    "C01": {
        "decided_by": "Proved: node_attractor_seeds returns a system of distinct representatives of exactly the attractors owned by the node "
                      "(inside its space, inside no successor recorded in the ghost successor signature) and caches it (I-cache); "
                      "node_attractor_candidates / compute_attractor_candidates return a list that covers every owned attractor (phases 2-3 "
                      "of the candidate computation against the retained-set lemma L7); symbolic_attractor_test returns None iff the pivot "
                      "reaches the avoid set and otherwise exactly the forward closure (least-ness L8), with a termination variant; "
                      "compute_fixed_point_reduced_STG enumerates ReducedSol up to the limit; expanded_attractor_seeds() maps exactly the expanded nodes "
                      "that own attractors to their cached seeds (stubs are left alone).",
        "bounded": "one-to-one correspondence of seeds and attractors over whole diagrams for all complete strategies vs brute-force terminal SCCs "
                   "(the per-node contracts compose over the diagram only through L3/L12, which is not mechanised for block/SCC strategies)",
        "excluded": [],
        "trusted": ["L7 (cited: Klarner-Siebert retained sets), L8 (Lean), L3 (Lean)", "pinned fragment: construction of the avoid list in compute_attractor_candidates",
                    "pinned fragments: two heuristic-choice fragments of symbolic_attractor_test"],
    },
    "C02": {
        "decided_by": "Proved: SuccessionDiagram.__init__ establishes and _ensure_edge, _ensure_node, _expand_one_node, node_successors, expand_bfs, "
                      "expand_dfs preserve the diagram invariant (I-ids, I-key, I-space, I-root, I-stub, I-norm, I-edge.rank, I-depth); I-norm pins "
                      "the exact sequence of (stable motif, percolated child) pairs of every normally expanded node to the key-sorted enumeration "
                      "of its maximal trap spaces (ghost successor signature); expand_bfs / expand_dfs return True only when every node reachable "
                      "from the start node is expanded; percolate_space = Perc, space_unique_key = SKey.",
        "bounded": "whole-diagram comparison with the brute-force hierarchy of percolated trap spaces on small networks",
        "excluded": [],
        "trusted": ["trappist_async call-site contract (clingo enumerates TrapSol; L4/L5 glue to MaxTrapSet)", "AEON Percolation = Perc", "L10 (Lean): key injective"],
    },
    "C03": {
        "decided_by": "Proved: none-spurious / none-duplicated from the invariant (I-norm, I-key) of the verified expansion core; none-missing for BFS and "
                      "DFS from their postcondition (True => every reachable node expanded) and node_is_minimal = expanded leaf; skip_to_minimal, "
                      "skip_remaining and make_skip_node attach exactly the minimal trap spaces inside the node (SkipOK signature); "
                      "expand_minimal_spaces returns True only when every minimal trap space inside the start node is the space of an expanded, "
                      "successor-free node (its internal completeness assertion is a declared exceptional outcome, not proved impossible); the "
                      "public wrapper methods pass their arguments on unchanged (delegation contracts); minimal_trap_spaces() lists exactly the expanded "
                      "leaves in ascending order; expand_attractor_seeds (body verified) only ever extends the diagram (monotone extension, invariant kept), so "
                      "whatever its first step expand_minimal_spaces established about expanded leaves is still there at the end.",
        "bounded": "block / SCC strategies (their drivers are assumed as abstract outcomes), the pruning test of the attractor-seed strategy, and all "
                   "strategies end to end vs brute-force minimal trap spaces",
        "excluded": [],
        "trusted": ["L3/L12 (Lean): leaves of the full diagram are the minimal trap spaces", "L13 (cited): block / source-SCC independence"],
    },
    "C04": {
        "decided_by": "Proved: data-structure invariant after every operation: _expand_one_node / node_successors / expand_bfs / expand_dfs / "
                      "expand_to_target require and ensure the full invariant and the monotone-extension relation ext(new, old) (an expanded node "
                      "never changes: same successor signature, edges, motifs, caches); transitivity of ext is a schema lemma proved by SMT on every "
                      "run, so the claim holds for every interleaving by induction on the call sequence; stub_ids / expanded_ids are exact.",
        "bounded": "lazily built vs fully built diagrams compared node by node on small networks, including level / size limited histories",
        "excluded": ["confluence with a fresh full expansion is the corollary I-norm + expand_bfs completeness (lemma c04_confluence, not mechanised)"],
        "trusted": ["trappist_async call-site contract", "AEON Percolation = Perc", "L10"],
    },
    "C05": {
        "decided_by": "Proved: skip_to_minimal, skip_remaining, make_skip_node (and its only caller expand_minimal_spaces, which applies it only to stubs "
                      "that are not minimal trap spaces themselves) turn a stub into a skip node whose successors are exactly the minimal trap "
                      "spaces inside it (I-skip), discard its cached attractor data, and leave expanded nodes untouched; compute_attractor_candidates "
                      "covers the owned attractors for the CURRENT successor signature.  The per-node skip-exclusion rule of the candidate "
                      "computation (regions of nodes with empty caches are removed) is known to lose attractors: known finding D12.",
        "bounded": "skip-node histories on motif-avoidant networks vs brute-force attractors (mechanism-exact classification of D12)",
        "excluded": [],
        "trusted": ["L3 (Lean)"],
    },
    "C06": {
        "decided_by": "Proved: find_drivers returns only overrides that force the motif under the LDOI of the symbolic graph and respect the forbidden set, "
                      "the strategy pool and the size bound; drivers_of_succession judges every step relative to the values fixed by the previous "
                      "steps (accumulated percolation); expand_to_target explores the target region (True) or stops at the size limit with a stub.",
        "bounded": "every reported intervention simulated on the overridden network (reaches / stays in the target)",
        "excluded": [],
        "trusted": ["L11 (Lean): LDOI theorem", "successions_to_target (path enumeration over networkx) not under contract"],
    },
    "C07": {
        "decided_by": "Proved: _ensure_edge records every stable motif of an edge exactly once, in order; find_drivers / drivers_of_succession never report a "
                      "forbidden variable, an oversized set or a non-driver (soundness and constraint respect).",
        "bounded": "completeness and minimality of driver sets and of successions vs brute force",
        "excluded": ["completeness with skip_feedforward_successions=True (order dependent)"],
        "trusted": ["edge_stable_motif (assumed)"],
    },
    "C08": {
        "decided_by": "Proved: compute_attractor_candidates covers every owned attractor on every path through its option combinations that is within the "
                      "subset (retained set from make_heuristic_retained_set assigns exactly the NFVS; asp_greedy_retained_set_optimization never "
                      "increases the candidate count, keeps the variable set, terminates); node_attractor_candidates returns the cached list (candidates, or the "
                      "seeds once the candidates were dropped) and never overwrites known data; expanded_attractor_candidates() maps exactly the expanded nodes "
                      "whose list is not empty to that list, and by the cache invariant the list of every expanded node covers the attractors the node owns.",
        "bounded": "all four option combinations and small / zero configuration values vs brute-force attractors; the collective accessor against the per-node lists",
        "excluded": [],
        "trusted": ["L7 (cited)", "run_simulation_minification, node_percolated_nfvs, state_list_to_bdd (assumed contracts)"],
    },
    "C09": {
        "decided_by": "Proved: _create_clingo_constraints and _create_clingo_fixed_point_constraints add EXACTLY the rules of the specified answer-set "
                      "program (rule-level specification over an abstract syntax of the generated texts; enumeration mode matches the problem); "
                      "trappist_async (bodies for a Petri-net and for a BooleanNetwork argument) and compute_fixed_point_reduced_STG_async hand clingo the specified program of the "
                      "RIGHT arguments (variables and sources extracted from the given net by the verified extract_variable_names / "
                      "extract_source_variables, the net reduced by exactly the transitions leaving a retained value) and feed the callback the decoded "
                      "models in order until it returns False; _clingo_model_to_space / _clingo_model_to_fixed_point decode atoms with the right polarity; "
                      "variable_to_place / place_to_variable are mutually inverse on real strings; trappist and compute_fixed_point_reduced_STG return an "
                      "enumeration of the requested set, complete unless truncated by the limit, via the callback schema.",
        "bounded": "solver output vs brute-force trap spaces / fixed points / reduced-STG deadlocks for all problem kinds, time directions, ensure / avoid "
                   "subspaces, source lists and limits",
        "excluded": [],
        "trusted": ["clingo parses the rule texts as the abstract rules and enumerates subset-minimal / -maximal stable models (domRec), each model a "
                    "conflict-free set of declared place atoms",
                    "glue between the body-level postcondition of the two *_async functions and their call-site view (enumeration of TrapSol / ReducedSol): "
                    "L4 (Lean, siphon half; reverse-time half cited), L9 (Lean): stable models of the specified program = the requested spaces",
                    "for a BooleanNetwork argument the translation network_to_petrinet is assumed (the program is then built for the translated net)"],
    },
    "C10": {
        "decided_by": "Proved: restrict_petrinet_to_subspace: full characterisation of the node and edge sets of the result for an arbitrary (uninterpreted) "
                      "net and subspace, all five loops with invariants, argument untouched; optimized_recursive_dnf_generator: the yielded clauses "
                      "cover the BDD exactly (Shannon expansion on the chosen variable, for ANY choice of a support variable), mention only support "
                      "variables, recursion terminates (support size); _create_transitions: exactly one transition per clause, named and attributed "
                      "as the naming convention says, consuming / producing the places of the changed variable in the stated direction and reading "
                      "the place of every other literal; network_to_petrinet (second contract `#structure`): the result consists of the two places "
                      "of every variable and, for every variable with an update function f, the transitions of the clause lists of f & !x (up) and "
                      "!f & x (down) - node by node and edge by edge; restrict_expression: the result denotes the same function on every valuation inside "
                      "the space and no longer depends on the fixed variables (only variables of the expression reach Bdd.r_restrict, so no IndexError); "
                      "percolate_network (second contract `#structure`): the space is percolated first, every update function is replaced by such a "
                      "restriction to the percolated space, free inputs fixed by it become that constant, nothing else is edited, then the graph is "
                      "re-inferred and (only if asked) constants are inlined; node_percolated_petri_net / node_percolated_network return a value that is a "
                      "function of (global net, node space) regardless of cache state.",
        "bounded": "network_to_petrinet / percolate_network vs brute-force dynamics (AEON BDD operations dominate them)",
        "excluded": ["what AEON's infer_valid_graph / inline_constants do to the edited network (opaque; bounded stand-in only)",
                     "that a net of the proved shape encodes the dynamics (Encodes) is lemma L4 over the Lean model (Biobalm/Petri.lean, Shannon.lean), "
                     "not re-derived from the SMT characterisation"],
        "trusted": ["networkx DiGraph operations", "L5: the syntactic characterisation implies Encodes(restrict(p,T), N, S u T) (cited; bounded validation)",
                    "AEON BooleanNetwork / SymbolicContext / Bdd accessors (AX_AEON_NET, AX_BDD_SEM), transition-name injectivity (AX_TRNAME), "
                    "attributes as functions of the node name (AX_ATTR)", "AEON BooleanExpression / BddVariableSet / UpdateFunction / network editing (AX_EXPR, AX_BN_EDIT)", "one trusted fragment of network_to_petrinet (rejection of parametrised networks, pinned by hash)",
                    "def.DnfOf: the clause generator is a deterministic function of the BDD"],
    },
    "C11": {
        "decided_by": "Proved: postconditions of intersect / is_subspace / function_eval / percolate_space_strict / percolation_conflicts over the three-valued "
                      "evaluation EvalOn and the strict least fixed point (lemma L1 instances, Lean); percolate_space is a wrapper around AEON's "
                      "Percolation.percolate_subspace (assumed = Perc); find_single_node_LDOIs holds, for every non-constant variable and value, "
                      "exactly the strict percolation of that single assignment, and find_single_drivers returns exactly the assignments whose "
                      "LDOI together with the assignment itself contains the target.",
        "bounded": "conformance of AEON percolation with the reference Perc; all functions end to end vs brute-force percolation",
        "excluded": [],
        "trusted": ["AEON Percolation.percolate_subspace computes Perc (assumed; exercised by the bounded conformance sweep)"],
    },
    "C12": {
        "decided_by": "Proved: node_attractor_sets returns the attractor sets of the node's seeds in the same order and caches them; "
                      "symbolic_attractor_test returns exactly the forward closure of the pivot when it does not reach the avoid set (= the attractor, L8); "
                      "expanded_attractor_sets() maps exactly the expanded nodes that own attractors to their cached sets; compute_attractors_symbolic "
                      "(second contract `#structure`): every seed is a tested candidate completed with the node's values, its set is the converted "
                      "forward closure of exactly that candidate, seeds keep the candidates' order, the single-candidate shortcut is only taken for a "
                      "childless node when only seeds are wanted; symbolic_attractor_fallback (second contract `#structure`): the set handed to AEON's "
                      "attractor search is, stage by stage, the node's states minus its successors, minus (skip node) the regions shared with "
                      "non-ancestor nodes whose cached candidates or seeds are the EMPTY list (rule pinned as written), reduced, minus the backward "
                      "closure of the successors unless the node is minimal or nothing is left; seeds and sets are reported pairwise in AEON's order.",
        "bounded": "attractor sets vs brute-force terminal SCCs; symbolic fallback vs default pipeline",
        "excluded": [],
        "trusted": ["the MEANING of compute_attractors_symbolic's and symbolic_attractor_fallback's results (system of representatives; call-site "
                    "contracts), sort_variable_list (assumed contracts)", "AEON vertex-set algebra, set conversions, transition_guided_reduction / "
                    "xie_beerel / reach_bwd (uninterpreted)", "one trusted fragment of symbolic_attractor_fallback (picking a state of an attractor, pinned by hash)"],
    },
    "C13": {
        "decided_by": "Proved (termination variants discharged): symbolic_attractor_test main loop (lexicographic variant over set cardinalities), "
                      "asp_greedy_retained_set_optimization, the recursion of _update_node_depth (measure nvars - number of fixed variables of the "
                      "node, decreasing along every edge), the fixed-point loop of percolate_space_strict (number of candidate variables), the "
                      "successor-skipping loops of expand_dfs / expand_minimal_spaces, the simulation loop of compute_attractor_candidates, the recursion of "
                      "optimized_recursive_dnf_generator (size of the BDD support), the name-clash retry loop of sanitize_network_names (a clash needs "
                      "an existing name of the candidate's length; every retry makes the candidate longer); "
                      "for-loops over finite collections terminate by construction of the iteration protocol.",
        "bounded": "every public operation under a per-case wall-clock limit and a counted work bound for the simulation rounds",
        "excluded": ["termination of clingo / AEON calls", "the worklist loops of expand_dfs / expand_minimal_spaces / expand_attractor_seeds (outer DFS loops: "
                     "their measure needs the finite universe of trap spaces; bounded stand-in only)"],
        "trusted": ["every external call terminates"],
    },
    "C14": {
        "decided_by": "Proved: I-cache (CacheOK relative to the ghost successor signature of each node) is part of the invariant ensured by __init__, "
                      "_ensure_node, _expand_one_node (caches_discarded + raises.nothing_cached), node_successors, reclaim_node_data, the skip functions "
                      "and the three attractor accessors (known data never overwritten, frame); CacheOK(none, none, none) is the only way to "
                      "re-establish it after a successor is added; expanded_attractor_candidates() leaves stubs alone; _mark_expanded (the helper through which source-SCC "
                      "attachment turns a stub into an expanded node) drops candidates, seeds and sets exactly when the node was a stub - its caller is not under contract.",
        "bounded": "source shortcuts and sub-diagram attachment (expand_source_blocks / SCCs), non-default configurations",
        "excluded": [],
        "trusted": ["meaning of CacheOK (each non-None cache field is correct for the current successor signature)"],
    },
    "C15": {
        "decided_by": "Proved: exceptional postconditions: _expand_one_node / node_successors raising RuntimeError leave the full invariant, the node unexpanded "
                      "without successors and with no cached attractor data, and every other node untouched; expand_bfs / expand_dfs / expand_to_target: "
                      "True => complete, False => a limit was given and the stated reason holds, RuntimeError => invariant and ext preserved; "
                      "expand_attractor_seeds (body verified): invariant and monotone extension on every exit (True, False, RuntimeError of the motif "
                      "limit, AssertionError of the inner completeness check), False only at the size limit with an unexpanded node in hand; "
                      "trappist / save_result respect solution limits exactly.",
        "bounded": "identity of partial diagrams across interrupted / uninterrupted runs (two-run comparison)",
        "excluded": [],
        "trusted": ["trappist may raise RuntimeError without modifying anything (clingo failure model)", "max_motifs_per_node >= 0"],
    },
    "C16": {
        "decided_by": "Proved: __getstate__ returns the six state fields unchanged and modifies nothing; __setstate__ installs exactly those fields and rebuilds "
                      "the network and symbolic graph from the rules; schema lemma S.pickle_roundtrip_is_identity (SMT, every run): setstate(getstate(v)) "
                      "is identical to v field by field; reclaim_node_data drops only recomputable data (candidates only where seeds are known) and "
                      "preserves the invariant; the percolated nets are functions of (global net, space), so recomputation gives the same value.",
        "bounded": "pickle / reclaim round trips mid-history compared on every observable and every later call",
        "excluded": [],
        "trusted": ["pickle serialises the state record faithfully", "AEON to_aeon / from_aeon round trip of a cleaned network (assumed axiom)"],
    },
    "C17": {
        "decided_by": "Proved: every verified result is specified over the SEMANTICS of the network (EvalOn of update BDDs, Perc, trap spaces), never over formula "
                      "syntax, so logically equivalent presentations give the same values (function_eval, percolate_space_strict, percolate_space); "
                      "space_unique_key depends only on variable indices; place names are an injective encoding of (variable, polarity) on real strings; "
                      "the generated ASP programs are sets of rules over those names; sanitize_network_names: every name of the result is sane, names that "
                      "were sane are kept, variables and update functions are untouched, a name clash is resolved by retrying with a longer candidate "
                      "(the retry loop terminates), and with check_only nothing is renamed and RuntimeError is raised only for a network with an "
                      "unsanitised name.",
        "bounded": "metamorphic runs: rename / reorder / re-encode / negate, sanitisation clashes, three input formats",
        "excluded": ["equality of the three AEON parsers", "what the two regular expressions of sanitize_network_names match (assumed: AX_RE)"],
        "trusted": ["equivariance of the abstract diagram under renaming / reordering (not mechanised)",
                    "re.match / re.sub on the two literal patterns, '_' + name, BooleanNetwork.set_variable_name (AX_RE)"],
    },
    "C18": {
        "decided_by": "Proved: the abstract diagram below a node is a function of (network, node space): __init__, _ensure_node, _expand_one_node, "
                      "node_successors, expand_bfs have functional postconditions (I-norm, ids allocated in attachment order, sources fixed jointly at "
                      "the root).  With L14 (Lean: trap spaces and attractors of a disjoint union are the pairwise products) and the restriction lemma "
                      "this gives the product and input-conditioning clauses for BFS-built diagrams.  expand_block / expand_scc reach their "
                      "drivers with the caller's arguments unchanged (delegation contracts against an abstract outcome of the driver); source_nodes (which variables the "
                      "component-wise drivers treat as inputs of a percolated network) lists exactly the variables without an update function or with the identity as "
                      "update function, each once - its callers are not under contract.",
        "bounded": "disjoint unions, input valuations under build / block / scc / attractor-seed / dfs strategies, published models <= 12 variables vs AEON",
        "excluded": ["agreement with an independent computation on large published models is empirical by nature",
                     "expand_source_blocks / expand_source_SCCs / attach_scc_subdiagram are not under contract (bounded only)"],
        "trusted": ["L14 (Lean): products", "restriction of the diagram to an input valuation (cited)"],
    },
    "C19": {
        "decided_by": "Proved: order-independence: every verified loop over a set / dict is proved for an ARBITRARY iteration order and its postcondition "
                      "determines the result uniquely (percolate_space_strict, restrict_petrinet_to_subspace, the ASP program builders, find_drivers' "
                      "soundness); expansion allocates node ids in the key-sorted enumeration order (functional postconditions of _ensure_node / "
                      "_expand_one_node / expand_bfs / expand_dfs), so ids, spaces, edges and motifs are a function of the network.",
        "bounded": "whole-diagram reproducibility across processes and PYTHONHASHSEED values, and after unrelated calls",
        "excluded": [],
        "trusted": ["AEON / clingo / networkx are deterministic", "run_simulation_minification uses a fixed seed (assumed contract)"],
    },
    "C20": {
        "decided_by": "Proved: _update_node_depth (recursive; satisfied edges stay satisfied, node depth exact, nodes not below unchanged), _ensure_edge "
                      "(edge-consistency of depths restored after every new edge), depth() = maximum, __len__ / node_ids / stub_ids / expanded_ids "
                      "contiguous ids, find_node exact match via key injectivity (L10), node_is_minimal, is_subgraph / is_isomorphic decide inclusion / "
                      "equality of node and edge sets, __init__ creates a single unexpanded root.",
        "bounded": "summary() / build() text output; depth = longest path on multi-path diagrams",
        "excluded": ["summary()/build() string building is outside the subset"],
        "trusted": ["L10", "networkx"],
    },
}

# Properties not claimed, with the reason recorded in MANIFEST.json.
NOT_APPLICABLE = {}
