"""Per-property metadata used by ./check: how the property is decided, which clauses this family
cannot reach (excluded), and extra trusted-base entries. A property is *claimed* iff it is listed here."""

PROPERTIES = {
    "C11": {
        "decided_by": "postconditions of intersect / is_subspace / function_eval / percolate_space_strict over the "
                      "three-valued evaluation EvalOn and the strict least fixed point (lemma L1 instances); "
                      "percolate_space is a wrapper around AEON's Percolation.percolate_subspace (assumed = Perc, "
                      "bounded conformance); single-node LDOI / driver queries are comprehensions over it",
        "excluded": [],
        "trusted": ["AEON Percolation.percolate_subspace computes Perc (assumed; exercised by the bounded conformance sweep)"],
    },
    "C02": {
        "decided_by": "SuccessionDiagram invariant (I-ids, I-key, I-space, I-root, I-stub, I-norm, I-edge.rank, I-depth) required and "
                      "ensured by _ensure_edge, _ensure_node, _expand_one_node, node_successors, expand_bfs; I-norm pins the exact "
                      "sequence of (stable motif, percolated child) pairs of every normally expanded node to the key-sorted "
                      "enumeration of its maximal trap spaces (ghost successor signature); expand_bfs returns True only when every "
                      "node reachable from the start node is expanded",
        "excluded": [],
        "trusted": ["trappist call-site contract (solver enumerates TrapSol; L4/L5 glue to MaxTrapSet)", "percolate_space = Perc", "space_unique_key = SKey (L10 injective)"],
    },
    "C04": {
        "decided_by": "data-structure invariant after every operation: _expand_one_node / node_successors / expand_bfs require and ensure the "
                      "full invariant and the monotone-extension relation ext(new, old) (an expanded node never changes: same successor "
                      "signature, edges, motifs, caches); transitivity of ext is a schema lemma proved by SMT on every run, so the claim "
                      "holds for every interleaving by induction on the call sequence",
        "excluded": ["confluence with a fresh full expansion is the corollary I-norm + expand_bfs completeness (lemma c04_confluence, not mechanised)"],
        "trusted": ["trappist call-site contract", "percolate_space = Perc", "space_unique_key = SKey"],
    },
    "C10": {
        "decided_by": "restrict_petrinet_to_subspace: full characterisation of the node and edge sets of the result for an arbitrary "
                      "(uninterpreted) net and subspace, all five loops with invariants; argument untouched (functional value model)",
        "excluded": ["network_to_petrinet / _create_transitions / percolate_network: assumed AEON BDD operations dominate; bounded stand-in only"],
        "trusted": ["networkx DiGraph operations", "L5: the syntactic characterisation implies Encodes(restrict(p,T), N, S∪T) (cited; bounded validation)"],
    },
    "C14": {
        "decided_by": "I-cache (CacheOK relative to the ghost successor signature of each node) is part of the invariant ensured by "
                      "_ensure_node, _expand_one_node (caches_discarded + raises.nothing_cached), node_successors, reclaim_node_data; "
                      "CacheOK(none, none, none) is the only axiom that re-establishes it after a successor is added",
        "excluded": ["skip paths, source shortcuts and sub-diagram attachment are decided by the bounded stand-in only (contracts not yet written)"],
        "trusted": ["meaning of CacheOK (each non-None cache field is correct for the current successor signature)"],
    },
    "C15": {
        "decided_by": "exceptional postconditions: _expand_one_node / node_successors raising RuntimeError leave the full invariant, the node "
                      "unexpanded without successors and with no cached attractor data, and every other node untouched; expand_bfs: "
                      "True => every reachable node expanded, False => a limit was given and (size limit) an unexpanded node exists",
        "excluded": ["identity of greedy partial diagrams across interrupted/uninterrupted runs (two-run property)"],
        "trusted": ["trappist may raise RuntimeError without modifying anything (clingo failure model)", "max_motifs_per_node >= 0"],
    },
    "C16": {
        "decided_by": "reclaim_node_data: frame postcondition (only percolated network / Petri net / NFVS dropped, candidates dropped only "
                      "where seeds are known; spaces, edges, motifs, flags, seeds, sets untouched) and invariant preservation; "
                      "restrict_petrinet_to_subspace is a function of its arguments (recomputation gives the same value)",
        "excluded": ["pickle round trip (__getstate__/__setstate__): dictionary unpacking and AEON text round trip are outside the subset; bounded stand-in only"],
        "trusted": ["pickle, AEON to_aeon/from_aeon"],
    },
    "C20": {
        "decided_by": "_update_node_depth (recursive; satisfied edges stay satisfied, node depth exact, nodes not below unchanged), "
                      "_ensure_edge (edge-consistency of depths restored after every new edge), depth() = maximum, __len__ / node_ids / "
                      "stub_ids / expanded_ids contiguous ids, find_node exact match via key injectivity (L10), node_is_minimal",
        "excluded": ["summary()/build() text output and is_subgraph/is_isomorphic: bounded stand-in only (string building outside the subset)"],
        "trusted": ["space_unique_key = SKey (L10)", "networkx"],
    },
}

# Properties not (yet) claimed, with the reason recorded in MANIFEST.json.
NOT_APPLICABLE = {}
