"""Contracts for biobalm/succession_diagram.py (class SuccessionDiagram). Sidecar; no repository code."""
import z3
from pyvc.vtypes import *
from pyvc.contract import Contract, LoopContract, HeapParam
from pyvc import theory as T
from pyvc import sdmodel as M
from pyvc import engine as E
from pyvc.externals_aeon import TGraph, TNetObj, net_of, bn_net_of
from . import sd_inv as S

SD = HeapParam("SD")


def split_and(name, conj):
    """a conjunction as separately named (and separately discharged, cumulative) clauses"""
    if z3.is_and(conj):
        return [(f"{name}.{k}", g) for k, g in enumerate(conj.children())]
    return [(name, conj)]

i, j, x, y = z3.Int("i"), z3.Int("j"), z3.Int("x"), z3.Int("y")
OptInt = TOpt(TInt)
LS, LI = M.LS, M.LI
EMPTY = z3.K(Name, z3.IntVal(-1))


def rank(v, n):
    return T.card(v.space[n])


def ranked_edges(v):
    """I-edge (consequence used for well-foundedness): every edge goes to a space fixing strictly more variables"""
    return z3.ForAll([x, y], z3.Implies(v.edge[x][y], z3.And(S.valid(v, x), S.valid(v, y), rank(v, x) < rank(v, y))))


def bounded_ranks(v):
    """no node fixes more variables than the network has (consequence of I-space; makes the rank a bounded measure)"""
    return z3.ForAll([x], z3.Implies(S.valid(v, x), rank(v, x) <= T.nvars(S.net(v))))


def d1(v):
    """I-depth (edge consistency): a successor is at least one level deeper"""
    return z3.ForAll([x, y], z3.Implies(v.edge[x][y], v.depth[y] >= v.depth[x] + 1))


ALL_FIELDS = ("K", "space", "expanded", "skipped", "parent", "cand", "seeds", "sets", "ppn", "pbn", "pnfvs",
              "edge", "motifs", "motif0", "succsig", "depth", "index", "net", "sym", "pn")


def identical(v, o):
    """the two views are the same value, field by field (no write happened at all)"""
    return z3.And(*[getattr(v, f) == getattr(o, f) for f in ALL_FIELDS])


def only_depth_changed(c):
    v, o = c.self, c.old.self
    return z3.And(v.K == o.K, S.frame_nodes(v, o, fields=("space", "expanded", "skipped", "parent", "cand", "seeds", "sets",
                                                           "ppn", "pbn", "pnfvs", "succsig")),
                  S.frame_edges(v, o), v.index == o.index)


def install(reg):
    # ------------------------------------------------------------------ trivial accessors
    reg.add(Contract("biobalm.succession_diagram.SuccessionDiagram.__len__", params=[("self", SD)], result_type=TInt,
                     properties=("C20",), ensures=[("counts_nodes", lambda c: c.result == c.self.K)],
                     pure=lambda c: vint(c.self.K)), method_of="SD")
    reg.add(Contract("biobalm.succession_diagram.SuccessionDiagram.root", params=[("self", SD)], result_type=TInt,
                     properties=("C20",), ensures=[("root_is_0", lambda c: c.result == 0)],
                     pure=lambda c: vint(0)), method_of="SD")
    reg.add(Contract(
        "biobalm.succession_diagram.SuccessionDiagram.node_is_minimal",
        params=[("self", SD), ("node_id", TInt)], result_type=TBool, properties=("C20", "C03", "C02"),
        requires=[lambda c: S.valid(c.self, c.node_id), lambda c: ranked_edges(c.self)],
        ensures=[("expanded_leaf", lambda c: c.result == z3.And(
            c.self.expanded[c.node_id], z3.Not(z3.Exists([j], z3.And(0 <= j, j < c.self.K, c.self.edge[c.node_id][j])))))],
        pure=lambda c: vbool(z3.And(c.self.expanded[c.node_id],
                                    z3.Not(z3.Exists([j], z3.And(0 <= j, j < c.self.K, c.self.edge[c.node_id][j])))))),
        method_of="SD")

    # ------------------------------------------------------------------ _update_node_depth  (C20; after fix 6eb36ea)
    def upd_post(c):
        v, o, n, p = c.self, c.old.self, c.node_id, c.parent_id
        return [
            ("frame.only_depth", only_depth_changed(c)),
            ("depth_never_decreases", z3.ForAll([i], v.depth[i] >= o.depth[i])),
            ("nodes_not_below_unchanged", z3.ForAll([i], z3.Implies(z3.And(rank(o, i) <= rank(o, n), i != n), v.depth[i] == o.depth[i]))),
            ("node_depth_exact", v.depth[n] == z3.If(o.depth[n] >= o.depth[p] + 1, o.depth[n], o.depth[p] + 1)),
            ("satisfied_edges_stay_satisfied", z3.ForAll([x, y], z3.Implies(
                z3.And(o.edge[x][y], o.depth[y] >= o.depth[x] + 1), v.depth[y] >= v.depth[x] + 1))),
            ("edge_parent_node_satisfied", v.depth[n] >= v.depth[p] + 1),
        ]

    def upd_loop_inv(c):
        v, o, n, p = c.self, c.old.self, c.node_id, c.parent_id
        ch = c.coll
        t = c.i
        return [
            ("frame.only_depth", only_depth_changed(c)),
            ("ge_old", z3.ForAll([i], v.depth[i] >= o.depth[i])),
            ("not_below_unchanged", z3.ForAll([i], z3.Implies(z3.And(rank(o, i) <= rank(o, n), i != n), v.depth[i] == o.depth[i]))),
            ("node_exact", v.depth[n] == c.new_depth),
            ("other_edges_ok", z3.ForAll([x, y], z3.Implies(
                z3.And(o.edge[x][y], x != n, o.depth[y] >= o.depth[x] + 1), v.depth[y] >= v.depth[x] + 1))),
            ("visited_children_ok", z3.ForAll([j], z3.Implies(z3.And(0 <= j, j < t), v.depth[LI.at(ch)[j]] >= v.depth[n] + 1))),
        ]

    reg.add(Contract(
        "biobalm.succession_diagram.SuccessionDiagram._update_node_depth",
        params=[("self", SD), ("node_id", TInt), ("parent_id", TInt)],
        properties=("C20",),
        requires=[lambda c: S.valid(c.self, c.node_id), lambda c: S.valid(c.self, c.parent_id),
                  lambda c: c.self.edge[c.parent_id][c.node_id], lambda c: ranked_edges(c.self), lambda c: bounded_ranks(c.self)],
        modifies={"self": ["depth"]},
        ensures=[(n, (lambda k: (lambda c: dict(upd_post(c))[k]))(n)) for n in
                 ["frame.only_depth", "depth_never_decreases", "nodes_not_below_unchanged", "node_depth_exact",
                  "satisfied_edges_stay_satisfied", "edge_parent_node_satisfied"]],
        loops={0: LoopContract("for child_id in list(self.dag.successors(node_id))", upd_loop_inv, havoc_heap={"self": ["depth"]})},
        local_types={"new_depth": TInt},
        # termination of the recursion: every edge goes to a space fixing strictly more variables (ranked_edges), and no space fixes
        # more variables than the network has
        rec_variant=lambda c: T.nvars(S.net(c.self)) - rank(c.self, c.node_id),
    ), method_of="SD")
    _install_core(reg)
    _install_expand(reg)
    _install_meta(reg)


# ====================================================================== structural core (C02, C04, C14, C15, C20)
def _install_core(reg):
    from .deps import LSet, SrcOf, NoSrc
    NODEF = ("space", "expanded", "skipped", "parent", "cand", "seeds", "sets", "ppn", "pbn", "pnfvs")

    def N(v):
        return S.net(v)

    def same_nodes(v, o, fields, except_ids=()):
        return S.frame_nodes(v, o, except_ids=except_ids, fields=fields)

    # ------------------------------------------------------------------ node_data
    def nd_pure(c):
        sd = c.val("self")
        return M._V("node", sd, c.node_id)

    reg.add(Contract(
        "biobalm.succession_diagram.SuccessionDiagram.node_data",
        params=[("self", SD), ("node_id", TInt)], properties=("C20", "C04"),
        requires=[lambda c: S.valid(c.self, c.node_id)],
        ensures=[("is_record_of_node", lambda c: z3.BoolVal(isinstance(c._result_val, M._V) and c._result_val.kind == "node")
                  if not isinstance(c._result_val, M._V) or c._result_val.kind != "node" else c._result_val.a[0] == c.node_id)],
        pure=nd_pure), method_of="SD")

    # ------------------------------------------------------------------ _ensure_edge
    def ee_motifs(c):
        v, o, p, ch, m = c.self, c.old.self, c.parent_id, c.child_id, c.stable_motif
        om, nm = o.motifs[p][ch], v.motifs[p][ch]
        a = z3.Int("a")
        return z3.If(o.edge[p][ch],
                     z3.And(LS.len(nm) == LS.len(om) + 1, LS.at(nm)[LS.len(om)] == m, v.motif0[p][ch] == o.motif0[p][ch],
                            z3.ForAll([a], z3.Implies(z3.And(0 <= a, a < LS.len(om)), LS.at(nm)[a] == LS.at(om)[a]))),
                     z3.And(LS.len(nm) == 1, LS.at(nm)[0] == m, v.motif0[p][ch] == m))

    reg.add(Contract(
        "biobalm.succession_diagram.SuccessionDiagram._ensure_edge",
        params=[("self", SD), ("parent_id", TInt), ("child_id", TInt), ("stable_motif", TSpace)],
        properties=("C02", "C04", "C20", "C07"),
        requires=[lambda c: S.valid(c.self, c.parent_id), lambda c: S.valid(c.self, c.child_id),
                  lambda c: ranked_edges(c.self), lambda c: d1(c.self), lambda c: bounded_ranks(c.self),
                  lambda c: rank(c.self, c.parent_id) < rank(c.self, c.child_id)],
        modifies={"self": ["edge", "motifs", "motif0", "succsig", "depth"]},
        ensures=[
            ("frame.nodes", lambda c: z3.And(c.self.K == c.old.self.K, c.self.index == c.old.self.index,
                                             same_nodes(c.self, c.old.self, NODEF))),
            ("succsig", lambda c: z3.And(
                c.self.succsig[c.parent_id] == S.addsucc(c.old.self.succsig[c.parent_id], c.stable_motif, c.self.space[c.child_id]),
                z3.ForAll([i], z3.Implies(i != c.parent_id, c.self.succsig[i] == c.old.self.succsig[i])))),
            ("edge_added", lambda c: z3.And(c.self.edge[c.parent_id][c.child_id], z3.ForAll([x, y], z3.Implies(
                z3.Not(z3.And(x == c.parent_id, y == c.child_id)),
                z3.And(c.self.edge[x][y] == c.old.self.edge[x][y], c.self.motifs[x][y] == c.old.self.motifs[x][y],
                       c.self.motif0[x][y] == c.old.self.motif0[x][y]))))),
            ("motif_recorded", ee_motifs),
            ("ranked_edges", lambda c: ranked_edges(c.self)),
            ("depth.edges_consistent", lambda c: d1(c.self)),
            ("depth.never_decreases", lambda c: z3.ForAll([i], c.self.depth[i] >= c.old.self.depth[i])),
        ],
    ), method_of="SD")

    # ------------------------------------------------------------------ _ensure_node
    def en_P(c):
        return T.Perc(N(c.self), c.stable_motif)

    def lem_perc(c):
        """L2.perc_trap for the motif: its percolation is a well-formed Perc-closed trap space over vars(N)"""
        Nn, P = N(c.self), en_P(c)
        return z3.Implies(z3.And(T.IsTrap(Nn, c.stable_motif), T.wf_space(c.stable_motif), T.dom_within(c.stable_motif, Nn)),
                          z3.And(T.wf_space(P), T.dom_within(P, Nn), T.IsTrap(Nn, P), T.Perc(Nn, P) == P))

    def lem_keyinj(c):
        """L10.key_injective instantiated for every existing node against the percolated motif"""
        Nn, P, v = N(c.self), en_P(c), c.self
        return z3.ForAll([i], z3.Implies(
            z3.And(S.valid(v, i), T.SKey(Nn, v.space[i]) == T.SKey(Nn, P), T.wf_space(P), T.dom_within(P, Nn)),
            v.space[i] == P))

    def lem_card_bound(c):
        sq = z3.Const("s!cb", T.SpaceS)
        Nn = N(c.self)
        return z3.ForAll([sq], z3.Implies(z3.And(T.wf_space(sq), T.dom_within(sq, Nn)), T.card(sq) <= T.nvars(Nn)), patterns=[T.card(sq)])

    OI = OptInt

    def en_post(c):
        v, o, r, P = c.self, c.old.self, c.result, T.Perc(N(c.old.self), c.stable_motif)
        par_none = OI.is_none(c.parent_id)
        p = OI.val(c.parent_id)
        isnew = v.K == o.K + 1
        nonec, nones, nonev = M.OptLS.none().t, M.OptLS.none().t, M.OptLV.none().t
        return [
            ("result_valid", z3.And(0 <= r, r < v.K, v.space[r] == P)),
            ("at_most_one_new_node", z3.Or(z3.And(v.K == o.K, r < o.K), z3.And(isnew, r == o.K))),
            ("net_unchanged", z3.And(v.net == o.net, v.sym == o.sym, v.pn == o.pn)),
            ("new_node_is_clean_stub", z3.Implies(isnew, z3.And(
                z3.Not(v.expanded[r]), z3.Not(v.skipped[r]), v.cand[r] == nonec, v.seeds[r] == nones, v.sets[r] == nonev,
                M.OptPN.is_none(v.ppn[r]), M.OptBN.is_none(v.pbn[r]), M.OptLN.is_none(v.pnfvs[r]),
                z3.ForAll([j], z3.And(z3.Not(v.edge[r][j]), z3.Implies(z3.Or(par_none, j != p), z3.Not(v.edge[j][r])))),
                v.succsig[r] == S.nosucc))),
            ("new_parentless_node", z3.Implies(z3.And(isnew, par_none), z3.And(v.depth[r] == 0, OI.is_none(v.parent[r])))),
            ("old_nodes_unchanged", same_nodes(v, o, NODEF)),
            ("edges", z3.If(par_none,
                            z3.And(z3.ForAll([i], z3.Implies(z3.And(0 <= i, i < o.K), v.succsig[i] == o.succsig[i])),
                                   z3.ForAll([x, y], z3.Implies(z3.And(0 <= x, x < o.K, 0 <= y, y < o.K), z3.And(
                                       v.edge[x][y] == o.edge[x][y], v.motifs[x][y] == o.motifs[x][y], v.motif0[x][y] == o.motif0[x][y])))),
                            z3.And(v.edge[p][r], v.succsig[p] == S.addsucc(o.succsig[p], c.stable_motif, P),
                                   z3.ForAll([i], z3.Implies(z3.And(0 <= i, i < o.K, i != p), v.succsig[i] == o.succsig[i])),
                                   z3.ForAll([x, y], z3.Implies(z3.And(0 <= x, x < o.K, 0 <= y, y < o.K, z3.Not(z3.And(x == p, y == r))), z3.And(
                                       v.edge[x][y] == o.edge[x][y], v.motifs[x][y] == o.motifs[x][y], v.motif0[x][y] == o.motif0[x][y])))))),
            ("depth.never_decreases", z3.ForAll([i], z3.Implies(z3.And(0 <= i, i < o.K), v.depth[i] >= o.depth[i]))),
            ("extends_unless_parent_expanded", z3.Implies(z3.Or(par_none, z3.Not(o.expanded[p])), S.ext(v, o))),
        ] + [("inv." + nm, g) for nm, g in S.inv(v, exempt=z3.If(par_none, -1, p))]

    reg.add(Contract(
        "biobalm.succession_diagram.SuccessionDiagram._ensure_node",
        params=[("self", SD), ("parent_id", OptInt), ("stable_motif", TSpace)], result_type=TInt,
        properties=("C02", "C04", "C14", "C15", "C20", "C07"),
        requires=[lambda c: S.inv_all(c.self, exempt=z3.If(OI.is_none(c.parent_id), -1, OI.val(c.parent_id)), allow_empty=True),
                  # the only call on an empty diagram is the creation of the root by __init__
                  lambda c: z3.Implies(c.self.K == 0, z3.And(OI.is_none(c.parent_id), c.stable_motif == EMPTY)),
                  lambda c: z3.And(T.wf_space(c.stable_motif), T.dom_within(c.stable_motif, N(c.self)), T.IsTrap(N(c.self), c.stable_motif)),
                  lambda c: z3.Implies(z3.Not(OI.is_none(c.parent_id)), z3.And(
                      S.valid(c.self, OI.val(c.parent_id)),
                      T.card(T.Perc(N(c.self), c.stable_motif)) > T.card(c.self.space[OI.val(c.parent_id)]),
                      T.subspace(T.Perc(N(c.self), c.stable_motif), c.self.space[OI.val(c.parent_id)])))],
        modifies={"self": ["K", "space", "expanded", "skipped", "parent", "cand", "seeds", "sets", "ppn", "pbn", "pnfvs",
                           "edge", "motifs", "motif0", "succsig", "depth", "index"]},
        ensures=[(nm, (lambda k: (lambda c: dict(en_post(c))[k]))(nm)) for nm in
                 ["result_valid", "at_most_one_new_node", "net_unchanged", "new_node_is_clean_stub", "new_parentless_node", "old_nodes_unchanged", "edges",
                  "depth.never_decreases", "extends_unless_parent_expanded"] + ["inv." + nm for nm, _ in S.inv(M.View(_dummy_ho()))]],
        lemmas=[("L2.perc_trap", lem_perc), ("L10.key_injective", lem_keyinj), ("def.card(bounded)", lem_card_bound)],
    ), method_of="SD")


class _dummy:
    pass


def _dummy_ho():
    """a throw-away heap object, only used to enumerate the clause names of the invariant"""
    st = E.State()
    f = M.fresh_fields(None, st, "dummy")
    return E.HeapObj("SD", f)


# ====================================================================== _expand_one_node / node_successors
def _install_expand(reg):
    from .deps import LSet, SrcOf, NoSrc
    NODEF = ("space", "expanded", "skipped", "parent", "cand", "seeds", "sets", "ppn", "pbn", "pnfvs")
    EMPTYS = z3.K(Name, z3.IntVal(-1))
    l, e, ss = z3.Const("l!g", LS.sort()), z3.Const("e!g", T.SpaceS), z3.Const("ss!g", T.SrcSet)
    pq = z3.Const("p!g", T.PNS)
    kk = z3.Int("k!e")

    def N(v):
        return S.net(v)

    def SE(c):
        o = c.old.self if c.old is not None else c.self
        n = c.node_id
        return T.SortedEnum(N(o), T.MaxTrapSet(N(o), o.space[n], n == 0))

    def entry(c):
        return c.old.self if c.old is not None else c.self

    def lem_glue(c):
        """L4+L5: what the solver enumerates for problem 'max' is the set of maximal trap spaces (both call shapes)"""
        o, n = entry(c), c.node_id
        Nn, Sp = N(o), o.space[n]
        src = z3.If(n == 0, SrcOf(o.pn), NoSrc)
        g1 = z3.ForAll([l, e, ss], z3.Implies(
            z3.And(T.IsEnum(l, T.TrapSol(o.pn, 1, False, e, T.no_avoid, ss)), e == Sp, ss == src, T.Encodes(o.pn, Nn, EMPTYS)),
            z3.And(T.SortByKey(Nn, l) == SE(c),
                   z3.ForAll([kk], z3.Implies(z3.And(0 <= kk, kk < LS.len(l)), T.dom_within(LS.at(l)[kk], Nn))))),
            patterns=[T.IsEnum(l, T.TrapSol(o.pn, 1, False, e, T.no_avoid, ss))])
        g2 = z3.ForAll([l, e, ss, pq], z3.Implies(
            z3.And(T.IsEnum(l, T.TrapSol(pq, 1, False, e, T.no_avoid, ss)), e == EMPTYS, ss == src, T.Encodes(pq, Nn, Sp)),
            z3.And(T.SortByKey(Nn, T.map_union(l, Sp)) == SE(c),
                   z3.ForAll([kk], z3.Implies(z3.And(0 <= kk, kk < LS.len(l)), T.dom_within(T.union(LS.at(l)[kk], Sp), Nn))))),
            patterns=[T.IsEnum(l, T.TrapSol(pq, 1, False, e, T.no_avoid, ss))])
        return z3.And(g1, g2)

    def lem_facts(c):
        """L2.max_trap_facts for every element of the sorted enumeration; L3 for a node that fixes everything; definition of NormSig"""
        o, n = entry(c), c.node_id
        Nn, Sp, se = N(o), o.space[n], SE(c)
        facts = z3.ForAll([kk], z3.Implies(z3.And(0 <= kk, kk < LS.len(se)), z3.And(
            T.wf_space(LS.at(se)[kk]), T.dom_within(LS.at(se)[kk], Nn), T.IsTrap(Nn, LS.at(se)[kk]),
            T.card(T.Perc(Nn, LS.at(se)[kk])) > T.card(Sp), T.subspace(T.Perc(Nn, LS.at(se)[kk]), Sp))))
        fixed = z3.Implies(T.card(Sp) == T.nvars(Nn), LS.len(se) == 0)
        return z3.And(facts, fixed, LS.len(se) >= 0, S.normsig_def(Nn, Sp, n == 0), T.lemma_restrict(o.pn, Nn, Sp))

    def others_unchanged(v, o, n):
        return z3.And(
            S.frame_nodes(v, o, except_ids=(n,), fields=NODEF + ("succsig",)),
            z3.ForAll([x, y], z3.Implies(z3.And(0 <= x, x < o.K, x != n, 0 <= y, y < o.K), z3.And(
                v.edge[x][y] == o.edge[x][y], v.motifs[x][y] == o.motifs[x][y], v.motif0[x][y] == o.motif0[x][y]))),
            z3.ForAll([x, y], z3.Implies(z3.And(0 <= x, x < o.K, x != n, y >= o.K), z3.Not(v.edge[x][y]))),
            v.K >= o.K, v.net == o.net, v.sym == o.sym, v.pn == o.pn,
            z3.ForAll([i], z3.Implies(z3.And(o.K <= i, i < v.K), z3.Not(v.expanded[i]))),
            z3.ForAll([i], z3.Implies(z3.And(0 <= i, i < o.K), v.depth[i] >= o.depth[i])))

    def node_cleared(v, n):
        return z3.And(v.cand[n] == M.OptLS.none().t, v.seeds[n] == M.OptLS.none().t, v.sets[n] == M.OptLV.none().t)

    def exp_post(c):
        v, o, n = c.self, c.old.self, c.node_id
        return [("expanded", v.expanded[n]),
                ("node_identity", z3.And(v.space[n] == o.space[n], v.skipped[n] == o.skipped[n])),
                ("noop_if_already_expanded", z3.Implies(o.expanded[n], z3.And(
                    v.K == o.K, S.frame_nodes(v, o, fields=NODEF + ("succsig", "depth")), S.frame_edges(v, o), v.index == o.index, identical(v, o)))),
                ("caches_discarded", z3.Implies(z3.Not(o.expanded[n]), node_cleared(v, n))),
                ("others_unchanged", others_unchanged(v, o, n)),
                ("extends_entry_diagram", S.ext(v, o)),
                ] + [("inv." + nm, g) for nm, g in S.inv(v)]

    def exp_raise(c):
        v, o, n = c.self, c.old.self, c.node_id
        return [("still_unexpanded_without_successors", z3.And(z3.Not(v.expanded[n]), v.succsig[n] == S.nosucc,
                                                                z3.ForAll([j], z3.Not(v.edge[n][j])))),
                ("nothing_cached", node_cleared(v, n)),
                ("diagram_unchanged", z3.And(v.K == o.K, v.index == o.index, S.frame_edges(v, o),
                                             S.frame_nodes(v, o, except_ids=(n,), fields=NODEF + ("succsig", "depth")),
                                             v.space[n] == o.space[n], v.depth[n] == o.depth[n])),
                ("extends_entry_diagram", S.ext(v, o)),
                ] + [("inv." + nm, g) for nm, g in S.inv(v)]

    INVN = [nm for nm, _ in S.inv(M.View(_dummy_ho()))]

    def loop_inv(c):
        v, o, n = c.self, c.old.self, c.node_id
        return [("inv." + nm, g) for nm, g in S.inv(v, exempt=n)] + [
            ("node_in_progress", z3.And(z3.Not(v.expanded[n]), z3.Not(v.skipped[n]), node_cleared(v, n), v.space[n] == o.space[n],
                                        S.valid(v, n))),
            ("signature_so_far", v.succsig[n] == S.FoldSig(N(o), c.coll, c.i)),
            ("others_unchanged", others_unchanged(v, o, n)),
            ("extends_entry_diagram", S.ext(v, o)),
        ]

    reg.add(Contract(
        "biobalm.succession_diagram.SuccessionDiagram._expand_one_node",
        params=[("self", SD), ("node_id", TInt)],
        properties=("C02", "C04", "C14", "C15", "C03"),
        requires=[lambda c: S.inv_all(c.self), lambda c: S.valid(c.self, c.node_id),
                  lambda c: c.self.cfg_max_motifs_per_node >= 0],
        modifies={"self": ["K", "space", "expanded", "skipped", "parent", "cand", "seeds", "sets", "ppn", "pbn", "pnfvs",
                           "edge", "motifs", "motif0", "succsig", "depth", "index"]},
        may_raise={"RuntimeError": {"modifies": {"self": ["cand", "seeds", "sets", "ppn"]}}},
        ensures=[(nm, (lambda k: (lambda c: dict(exp_post(c))[k]))(nm)) for nm in
                 ["expanded", "node_identity", "noop_if_already_expanded", "caches_discarded", "others_unchanged", "extends_entry_diagram"] + ["inv." + x for x in INVN]],
        raises={"RuntimeError": [(nm, (lambda k: (lambda c: dict(exp_raise(c))[k]))(nm)) for nm in
                                 ["still_unexpanded_without_successors", "nothing_cached", "diagram_unchanged", "extends_entry_diagram"] + ["inv." + x for x in INVN]]},
        lemmas=[("L4+L5.max_traps_global+restricted", lem_glue), ("L2.max_trap_facts+L3.no_max_trap_in_fixed_point", lem_facts)],
        loops={0: LoopContract("for sub_space in sub_spaces", loop_inv,
                               havoc_heap={"self": ["K", "space", "expanded", "skipped", "parent", "cand", "seeds", "sets", "ppn", "pbn",
                                                    "pnfvs", "edge", "motifs", "motif0", "succsig", "depth", "index"]})},
        local_types={"sub_spaces": LS, "source_nodes": TList(TName)},
    ), method_of="SD")

    # ------------------------------------------------------------------ node_successors
    def ns_post(c):
        v, o, n, r = c.self, c.old.self, c.node_id, c.result
        a, b = z3.Int("a"), z3.Int("b")
        return [("expanded", v.expanded[n]),
                ("result_is_successor_set", z3.And(
                    z3.ForAll([a], z3.Implies(z3.And(0 <= a, a < LI.len(r)), z3.And(S.valid(v, LI.at(r)[a]), v.edge[n][LI.at(r)[a]]))),
                    z3.ForAll([b], z3.Implies(v.edge[n][b], z3.Exists([a], z3.And(0 <= a, a < LI.len(r), LI.at(r)[a] == b)))),
                    z3.ForAll([a, b], z3.Implies(z3.And(0 <= a, a < b, b < LI.len(r)), LI.at(r)[a] != LI.at(r)[b])))),
                ("noop_if_already_expanded", z3.Implies(o.expanded[n], z3.And(
                    v.K == o.K, S.frame_nodes(v, o, fields=NODEF + ("succsig", "depth")), S.frame_edges(v, o), v.index == o.index, identical(v, o)))),
                ("caches_discarded", z3.Implies(z3.Not(o.expanded[n]), node_cleared(v, n))),
                ("others_unchanged", others_unchanged(v, o, n)),
                ("extends_entry_diagram", S.ext(v, o)),
                ] + [("inv." + nm, g) for nm, g in S.inv(v)]

    reg.add(Contract(
        "biobalm.succession_diagram.SuccessionDiagram.node_successors",
        params=[("self", SD), ("node_id", TInt), ("compute", TBool)], defaults={"compute": False}, result_type=LI,
        properties=("C02", "C04", "C14", "C15", "C03"),
        requires=[lambda c: S.inv_all(c.self), lambda c: S.valid(c.self, c.node_id),
                  lambda c: c.self.cfg_max_motifs_per_node >= 0],
        modifies={"self": ["K", "space", "expanded", "skipped", "parent", "cand", "seeds", "sets", "ppn", "pbn", "pnfvs",
                           "edge", "motifs", "motif0", "succsig", "depth", "index"]},
        may_raise={"RuntimeError": {"modifies": {"self": ["cand", "seeds", "sets", "ppn"]}, "when": lambda c: z3.And(c.compute, z3.Not(c.self.expanded[c.node_id]))},
                   "KeyError": {"only_when": lambda c: z3.And(z3.Not(c.compute), z3.Not(c.self.expanded[c.node_id]))}},
        ensures=[(nm, (lambda k: (lambda c: dict(ns_post(c))[k]))(nm)) for nm in
                 ["expanded", "result_is_successor_set", "noop_if_already_expanded", "caches_discarded", "others_unchanged", "extends_entry_diagram"] + ["inv." + x for x in INVN]],
        raises={"RuntimeError": [(nm, (lambda k: (lambda c: dict(exp_raise(c))[k]))(nm)) for nm in
                                 ["still_unexpanded_without_successors", "nothing_cached", "diagram_unchanged", "extends_entry_diagram"] + ["inv." + x for x in INVN]],
                "KeyError": [("nothing_changed", lambda c: z3.And(
                    c.self.K == c.old.self.K, S.frame_nodes(c.self, c.old.self, fields=NODEF + ("succsig", "depth")),
                    S.frame_edges(c.self, c.old.self), c.self.index == c.old.self.index,
                    z3.Not(c.compute), z3.Not(c.self.expanded[c.node_id])))]},
    ), method_of="SD")


# ====================================================================== metadata / accessors (C20, C16)
def _install_meta(reg):
    NODEF = ("space", "expanded", "skipped", "parent", "cand", "seeds", "sets", "ppn", "pbn", "pnfvs")
    a, b = z3.Int("a"), z3.Int("b")
    Y = lambda c: c.local("__yield__")

    def ids_range(c):
        return E._RangeIter(z3.IntVal(0), c.self.K)

    reg.add(Contract(
        "biobalm.succession_diagram.SuccessionDiagram.node_ids", params=[("self", SD)], result_type=LI,
        properties=("C20",),
        ensures=[("contiguous_from_root", lambda c: z3.And(LI.len(c.result) == z3.If(c.self.K >= 0, c.self.K, 0), z3.ForAll(
            [a], z3.Implies(z3.And(0 <= a, a < LI.len(c.result)), LI.at(c.result)[a] == a))))],
        loops={0: LoopContract("for i in range(len(self))", lambda c: [
            ("yielded_prefix", z3.And(LI.len(Y(c)) == c.i, z3.ForAll([a], z3.Implies(z3.And(0 <= a, a < c.i), LI.at(Y(c))[a] == a))))],
            local_types={"__yield__": LI})},
        pure=ids_range), method_of="SD")

    def filtered(c, flag):
        """ascending list of exactly the ids with expanded[i] == flag"""
        r, v = c.result, c.self
        return z3.And(
            z3.ForAll([a], z3.Implies(z3.And(0 <= a, a < LI.len(r)), z3.And(S.valid(v, LI.at(r)[a]), v.expanded[LI.at(r)[a]] == flag))),
            z3.ForAll([a, b], z3.Implies(z3.And(0 <= a, a < b, b < LI.len(r)), LI.at(r)[a] < LI.at(r)[b])),
            z3.ForAll([b], z3.Implies(z3.And(S.valid(v, b), v.expanded[b] == flag), T.MemI(r, b))))

    def filt_inv(flag):
        def f(c):
            y, v = Y(c), c.self
            return [("yielded_so_far", z3.And(
                LI.len(y) >= 0,
                z3.ForAll([a], z3.Implies(z3.And(0 <= a, a < LI.len(y)), z3.And(0 <= LI.at(y)[a], LI.at(y)[a] < c.i, v.expanded[LI.at(y)[a]] == flag))),
                z3.ForAll([a, b], z3.Implies(z3.And(0 <= a, a < b, b < LI.len(y)), LI.at(y)[a] < LI.at(y)[b])),
                z3.ForAll([b], z3.Implies(z3.And(0 <= b, b < c.i, v.expanded[b] == flag), T.MemI(y, b))))),
                    ("index_in_range", z3.And(0 <= c.i, z3.Or(c.i <= v.K, c.i == 0)))]
        return f

    for nm, flag in (("stub_ids", False), ("expanded_ids", True)):
        reg.add(Contract(
            "biobalm.succession_diagram.SuccessionDiagram." + nm, params=[("self", SD)], result_type=LI,
            properties=("C20", "C04"),
            ensures=[("exactly_the_%s_nodes_ascending" % ("expanded" if flag else "unexpanded"), (lambda fl: lambda c: filtered(c, fl))(flag))],
            loops={0: LoopContract("for i in range(len(self))", filt_inv(flag), local_types={"__yield__": LI})},
        ), method_of="SD")

    # depth(): maximum node depth
    reg.add(Contract(
        "biobalm.succession_diagram.SuccessionDiagram.depth", params=[("self", SD)], result_type=TInt,
        properties=("C20",),
        requires=[lambda c: c.self.K >= 1, lambda c: z3.ForAll([i], z3.Implies(S.valid(c.self, i), c.self.depth[i] >= 0))],
        ensures=[("is_maximum", lambda c: z3.And(
            z3.ForAll([i], z3.Implies(S.valid(c.self, i), c.result >= c.self.depth[i])),
            z3.Exists([i], z3.And(S.valid(c.self, i), c.result == c.self.depth[i]))))],
        loops={0: LoopContract("for node in self.dag.nodes()", lambda c: [
            ("max_so_far", z3.And(z3.ForAll([i], z3.Implies(z3.And(0 <= i, i < c.i), c.d >= c.self.depth[i])),
                                  z3.Or(z3.And(c.i == 0, c.d == 0), z3.Exists([i], z3.And(0 <= i, i < c.i, c.d == c.self.depth[i]))),
                                  c.d >= 0))], local_types={"d": TInt})},
    ), method_of="SD")

    # reclaim_node_data (C16): drops recomputable caches, keeps every known attractor
    def rc_frame(v, o, upto):
        """nodes below `upto` are reclaimed, the others untouched; nothing else changes"""
        nonePN, noneBN, noneLN, noneLS = M.OptPN.none().t, M.OptBN.none().t, M.OptLN.none().t, M.OptLS.none().t
        return z3.And(
            v.K == o.K, v.index == o.index, S.frame_edges(v, o), v.net == o.net, v.sym == o.sym, v.pn == o.pn,
            S.frame_nodes(v, o, fields=("space", "expanded", "skipped", "parent", "seeds", "sets", "succsig", "depth")),
            z3.ForAll([i], z3.Implies(z3.And(0 <= i, i < upto), z3.And(
                v.ppn[i] == nonePN, v.pbn[i] == noneBN, v.pnfvs[i] == noneLN,
                v.cand[i] == z3.If(M.OptLS.is_none(o.seeds[i]), o.cand[i], noneLS)))),
            z3.ForAll([i], z3.Implies(z3.And(upto <= i, i < o.K), z3.And(
                v.ppn[i] == o.ppn[i], v.pbn[i] == o.pbn[i], v.pnfvs[i] == o.pnfvs[i], v.cand[i] == o.cand[i]))))

    INVN = [nm for nm, _ in S.inv(M.View(_dummy_ho()))]

    def pick(fn, nm):
        return lambda c: dict(fn(c))[nm]

    def rc_post(c):
        return [("only_recomputable_data_dropped", rc_frame(c.self, c.old.self, c.self.K))] + [("inv." + nm, g) for nm, g in S.inv(c.self)]

    reg.add(Contract(
        "biobalm.succession_diagram.SuccessionDiagram.reclaim_node_data", params=[("self", SD)],
        properties=("C16", "C14"),
        requires=[lambda c: S.inv_all(c.self)],
        modifies={"self": ["ppn", "pbn", "pnfvs", "cand"]},
        ensures=[(nm, pick(rc_post, nm)) for nm in ["only_recomputable_data_dropped"] + ["inv." + x for x in INVN]],
        loops={0: LoopContract("for node_id in self.node_ids()", lambda c: [
            ("reclaimed_prefix", rc_frame(c.self, c.old.self, c.i)), ("index", z3.And(0 <= c.i, c.i <= c.self.K))] +
            [("inv." + nm, g) for nm, g in S.inv(c.self)], havoc_heap={"self": ["ppn", "pbn", "pnfvs", "cand"]})},
    ), method_of="SD")

    # find_node (C20)
    OI2 = TOpt(TInt)

    def fn_post(c):
        v, r, q = c.self, c.result, c.node_space
        D = M.TDict(TInt, TInt)
        key = T.SKey(S.net(v), q)
        return [("found_iff_equal_space", z3.And(
            z3.Implies(z3.Not(OI2.is_none(r)), z3.And(S.valid(v, OI2.val(r)), v.space[OI2.val(r)] == q)),
            z3.Implies(OI2.is_none(r), z3.ForAll([i], z3.Implies(S.valid(v, i), v.space[i] != q))))),
                ("is_index_lookup", z3.And(
                    OI2.is_none(r) == z3.Not(z3.And(T.dom_within(q, S.net(v)), D.dom(v.index)[key])),
                    z3.Implies(z3.Not(OI2.is_none(r)), OI2.val(r) == D.vals(v.index)[key])))]

    reg.add(Contract(
        "biobalm.succession_diagram.SuccessionDiagram.find_node", params=[("self", SD), ("node_space", TSpace)], result_type=OI2,
        properties=("C20",),
        requires=[lambda c: S.inv_all(c.self), lambda c: T.wf_space(c.node_space)],
        ensures=[(nm, pick(fn_post, nm)) for nm in ["found_iff_equal_space", "is_index_lookup"]],
        lemmas=[("L10.key_injective", lambda c: z3.ForAll([i], z3.Implies(
            z3.And(S.valid(c.self, i), T.SKey(S.net(c.self), c.self.space[i]) == T.SKey(S.net(c.self), c.node_space),
                   T.wf_space(c.node_space), T.dom_within(c.node_space, S.net(c.self))),
            c.self.space[i] == c.node_space)))],
    ), method_of="SD")


# ====================================================================== cached accessors and skip paths (C16, C10, C14, C05, C03)
def _install_skip(reg):
    from .deps import LSet, SrcOf, NoSrc
    from pyvc import pnmodel as P
    NODEF = ("space", "expanded", "skipped", "parent", "cand", "seeds", "sets", "ppn", "pbn", "pnfvs")
    INVN = [nm for nm, _ in S.inv(M.View(_dummy_ho()))]
    EMPTYS = z3.K(Name, z3.IntVal(-1))

    def N(v):
        return S.net(v)

    def pick(fn, nm):
        return lambda c: dict(fn(c))[nm]

    # restrict_petrinet_to_subspace on OPAQUE nets (SuccessionDiagram level): value RestrictPN(p, S)
    graph_level = reg.by_name["restrict_petrinet_to_subspace"]

    def restrict_apply(eng, st, c, argmap, exprmap, node):
        pn = argmap["petri_net"]
        if pn.ty == M.TPN:
            sp = eng.coerce(argmap["sub_space"], TSpace, st)
            return Val(M.TPN, T.RestrictPN(pn.t, sp.t))
        saved, c.custom_apply = c.custom_apply, None
        try:
            from pyvc.calls import apply_contract
            return apply_contract(eng, st, c, [argmap["petri_net"], argmap["sub_space"]], {}, node, arg_exprs=[exprmap.get("petri_net"), exprmap.get("sub_space")])
        finally:
            c.custom_apply = saved
    graph_level.custom_apply = restrict_apply

    # ------------------------------------------------------------------ node_percolated_petri_net
    def ppn_post(c):
        v, o, n, r = c.self, c.old.self, c.node_id, c.result
        fixed = T.card(o.space[n]) == T.nvars(N(o))
        return [
            ("value_independent_of_caches", z3.If(fixed, r == T.EmptyPN, r == T.RestrictPN(o.pn, o.space[n]))),
            ("encodes_node_dynamics", T.Encodes(r, N(o), o.space[n])),
            ("only_this_cache_filled", z3.And(
                v.K == o.K, v.index == o.index, S.frame_edges(v, o), v.net == o.net, v.sym == o.sym, v.pn == o.pn,
                S.frame_nodes(v, o, fields=("space", "expanded", "skipped", "parent", "cand", "seeds", "sets", "pbn", "pnfvs", "succsig", "depth")),
                S.frame_nodes(v, o, except_ids=(n,), fields=("ppn",)),
                z3.Or(v.ppn[n] == o.ppn[n], z3.And(z3.Not(fixed), v.ppn[n] == M.OptPN.some(r))))),
        ] + [("inv." + nm, g) for nm, g in S.inv(v)]

    def ppn_lemmas(c):
        o = c.old.self if c.old is not None else c.self
        n = c.node_id
        Nn, Sp = N(o), o.space[n]
        par = z3.If(OptInt.is_none(c.parent_id), o.parent[n], c.parent_id)
        pS = o.space[OptInt.val(par)]
        return z3.And(T.lemma_restrict(o.pn, Nn, Sp, parentS=pS),
                      z3.Implies(T.card(Sp) == T.nvars(Nn), T.Encodes(T.EmptyPN, Nn, Sp)))

    reg.add(Contract(
        "biobalm.succession_diagram.SuccessionDiagram.node_percolated_petri_net",
        params=[("self", SD), ("node_id", TInt), ("compute", TBool), ("parent_id", OptInt)],
        defaults={"compute": False, "parent_id": None}, result_type=M.TPN,
        properties=("C10", "C16"),
        requires=[lambda c: S.inv_all(c.self), lambda c: S.valid(c.self, c.node_id),
                  lambda c: z3.Implies(z3.Not(OptInt.is_none(c.parent_id)), z3.And(
                      S.valid(c.self, OptInt.val(c.parent_id)),
                      T.subspace(c.self.space[c.node_id], c.self.space[OptInt.val(c.parent_id)])))],
        modifies={"self": ["ppn"]},
        may_raise={"KeyError": {"only_when": lambda c: z3.And(z3.Not(c.compute), M.OptPN.is_none(c.self.ppn[c.node_id]),
                                                              T.card(c.self.space[c.node_id]) != T.nvars(N(c.self)))}},
        raises={"KeyError": [("nothing_changed", lambda c: z3.And(c.self.ppn == c.old.self.ppn, z3.Not(c.compute)))]},
        ensures=[(nm, pick(ppn_post, nm)) for nm in ["value_independent_of_caches", "encodes_node_dynamics", "only_this_cache_filled"] + ["inv." + x for x in INVN]],
        lemmas=[("L5.restrict_composes+restrict_encodes+empty_encodes", ppn_lemmas)],
        local_types={"percolated_pn": M.OptPN},
    ), method_of="SD")


def _install_skip2(reg):
    from .deps import LSet, SrcOf, NoSrc
    NODEF = ("space", "expanded", "skipped", "parent", "cand", "seeds", "sets", "ppn", "pbn", "pnfvs")
    NODEF_NOEXP = ("space", "skipped", "parent", "cand", "seeds", "sets", "ppn", "pbn", "pnfvs")
    INVN = [nm for nm, _ in S.inv(M.View(_dummy_ho()))]
    EMPTYS = z3.K(Name, z3.IntVal(-1))
    ALLF = ["K", "space", "expanded", "skipped", "parent", "cand", "seeds", "sets", "ppn", "pbn", "pnfvs",
            "edge", "motifs", "motif0", "succsig", "depth", "index"]
    l, e, ss, pq = z3.Const("l!h", LS.sort()), z3.Const("e!h", T.SpaceS), z3.Const("ss!h", T.SrcSet), z3.Const("p!h", T.PNS)

    def N(v):
        return S.net(v)

    def pick(fn, nm):
        return lambda c: dict(fn(c))[nm]

    def entry(c):
        return c.old.self if c.old is not None else c.self

    def lem_min(c):
        """L4+L5.min_traps_restricted and L3.min_trap_facts for the node's space"""
        o, n = entry(c), c.node_id
        Nn, Sp = N(o), o.space[n]
        glue = z3.ForAll([l, e, ss, pq], z3.Implies(
            z3.And(T.IsEnum(l, T.TrapSol(pq, 0, False, e, T.no_avoid, ss)), e == EMPTYS,
                   z3.Or(pq == T.RestrictPN(o.pn, Sp), z3.And(pq == T.EmptyPN, T.card(Sp) == T.nvars(Nn))), T.Encodes(o.pn, Nn, EMPTYS)),
            z3.And(T.IsEnum(T.map_union_l(Sp, l), T.MinTrapSet(Nn, Sp)),
                   S.min_trap_facts(Nn, Sp, T.map_union_l(Sp, l)))),
            patterns=[T.IsEnum(l, T.TrapSol(pq, 0, False, e, T.no_avoid, ss))])
        return glue

    def others(v, o, n):
        """nodes other than n: nothing changes except that minimal trap spaces may be marked expanded (they stay without successors)"""
        i_ = z3.Int("i")
        x_, y_ = z3.Int("x"), z3.Int("y")
        return z3.And(
            S.frame_nodes(v, o, except_ids=(n,), fields=NODEF_NOEXP + ("succsig",)),
            z3.ForAll([i_], z3.Implies(z3.And(0 <= i_, i_ < o.K, i_ != n), z3.Implies(o.expanded[i_], v.expanded[i_]))),
            z3.ForAll([i_], z3.Implies(z3.And(0 <= i_, i_ < v.K, i_ != n, v.expanded[i_], z3.Or(i_ >= o.K, z3.Not(o.expanded[i_]))),
                                       z3.And(v.succsig[i_] == S.nosucc, T.MinTrapSet(N(o), o.space[n])[v.space[i_]]))),
            z3.ForAll([x_, y_], z3.Implies(z3.And(0 <= x_, x_ < o.K, x_ != n, 0 <= y_, y_ < o.K), z3.And(
                v.edge[x_][y_] == o.edge[x_][y_], v.motifs[x_][y_] == o.motifs[x_][y_], v.motif0[x_][y_] == o.motif0[x_][y_]))),
            z3.ForAll([x_, y_], z3.Implies(z3.And(0 <= x_, x_ < o.K, x_ != n, y_ >= o.K), z3.Not(v.edge[x_][y_]))),
            v.K >= o.K, v.net == o.net, v.sym == o.sym, v.pn == o.pn,
            z3.ForAll([i_], z3.Implies(z3.And(0 <= i_, i_ < o.K), v.depth[i_] >= o.depth[i_])))

    def cleared(v, n):
        return z3.And(v.cand[n] == M.OptLS.none().t, v.seeds[n] == M.OptLS.none().t, v.sets[n] == M.OptLV.none().t)

    def stm_post(c):
        v, o, n, r = c.self, c.old.self, c.node_id, c.result
        return [
            ("false_iff_already_expanded", r == z3.Not(o.expanded[n])),
            ("noop_if_already_expanded", z3.Implies(o.expanded[n], z3.And(
                v.K == o.K, S.frame_nodes(v, o, fields=NODEF + ("succsig", "depth")), S.frame_edges(v, o), v.index == o.index))),
            ("node_expanded", z3.Implies(r, z3.And(v.expanded[n], v.space[n] == o.space[n]))),
            ("skip_node_or_minimal", z3.Implies(r, z3.Or(
                z3.And(v.skipped[n], cleared(v, n)),
                z3.And(z3.Not(v.skipped[n]), v.succsig[n] == S.nosucc, S.frame_nodes(v, o, fields=("cand", "seeds", "sets")))))),
            *split_and("others", others(v, o, n)),
        ] + [("inv." + nm, g) for nm, g in S.inv(v)]

    def stm_loop(c):
        v, o, n = c.self, c.old.self, c.node_id
        return [("inv." + nm, g) for nm, g in S.inv(v, exempt=n)] + [
            ("node_in_progress", z3.And(z3.Not(v.expanded[n]), z3.Not(v.skipped[n]), cleared(v, n), v.space[n] == o.space[n], S.valid(v, n),
                                        z3.Or(v.ppn[n] == o.ppn[n], v.ppn[n] == M.OptPN.some(T.RestrictPN(o.pn, o.space[n]))))),
            ("signature_so_far", v.succsig[n] == S.FoldSig(N(o), c.coll, c.i)),
            *split_and("others", others(v, o, n)),
        ]

    reg.add(Contract(
        "biobalm.succession_diagram.SuccessionDiagram.skip_to_minimal",
        params=[("self", SD), ("node_id", TInt)], result_type=TBool,
        properties=("C14", "C05", "C03"),
        requires=[lambda c: S.inv_all(c.self), lambda c: S.valid(c.self, c.node_id)],
        modifies={"self": ALLF},
        may_raise={"RuntimeError": {"modifies": {"self": ["ppn"]}}},
        raises={"RuntimeError": [("inv_kept", lambda c: S.inv_all(c.self)), ("still_unexpanded", lambda c: z3.Not(c.self.expanded[c.node_id]))]},
        ensures=[(nm, pick(stm_post, nm)) for nm in ["false_iff_already_expanded", "noop_if_already_expanded", "node_expanded",
                                                      "skip_node_or_minimal"] + [f"others.{k}" for k in range(10)] + ["inv." + x for x in INVN]],
        lemmas=[("L4+L5.min_traps_restricted+L3.min_trap_facts", lem_min),
                ("def.SkipOK", lambda c: S.skipok_intro(N(c.self), c.old.self.space[c.node_id], c.minimal_traps, c.self.succsig[c.node_id]))],
        loops={0: LoopContract("for m_trap in minimal_traps", stm_loop, havoc_heap={"self": ALLF})},
        local_types={"minimal_traps": LS},
    ), method_of="SD")


def _install_skip3(reg):
    from pyvc.externals_aeon import TNetObj, bn_net_of, net_of
    NODEF = ("space", "expanded", "skipped", "parent", "cand", "seeds", "sets", "ppn", "pbn", "pnfvs")
    INVN = [nm for nm, _ in S.inv(M.View(_dummy_ho()))]
    EMPTYS = z3.K(Name, z3.IntVal(-1))
    ALLF = ["K", "space", "expanded", "skipped", "parent", "cand", "seeds", "sets", "ppn", "pbn", "pnfvs",
            "edge", "motifs", "motif0", "succsig", "depth", "index"]

    def N(v):
        return S.net(v)

    def pick(fn, nm):
        return lambda c: dict(fn(c))[nm]

    # percolate_network: assumed (AEON BDD restriction, infer_valid_graph, inline_constants)
    reg.add(Contract(
        "biobalm.space_utils.percolate_network", trusted=True,
        params=[("bn", TNetObj), ("space", TSpace), ("symbolic_network", TOpt(TGraph)), ("remove_constants", TBool)],
        defaults={"symbolic_network": None, "remove_constants": False}, result_type=TNetObj,
        properties=("C10", "C16"),
        ensures=[("value", lambda c: z3.Implies(c.remove_constants, c.result == T.PercNetObj(c.bn, c.space)))],
        note="update functions restricted by BDD substitution (restrict_expression), graph re-inferred, constants inlined by AEON",
    ))

    def pbn_post(c):
        v, o, n, r = c.self, c.old.self, c.node_id, c.result
        fixed = T.card(o.space[n]) == T.nvars(N(o))
        return [
            ("value_independent_of_caches", z3.If(fixed, r == T.EmptyBN, r == T.PercNetObj(o.net, o.space[n]))),
            ("only_this_cache_filled", z3.And(
                v.K == o.K, v.index == o.index, S.frame_edges(v, o), v.net == o.net, v.sym == o.sym, v.pn == o.pn,
                S.frame_nodes(v, o, fields=("space", "expanded", "skipped", "parent", "cand", "seeds", "sets", "ppn", "pnfvs", "succsig", "depth")),
                S.frame_nodes(v, o, except_ids=(n,), fields=("pbn",)),
                z3.Or(v.pbn[n] == o.pbn[n], z3.And(z3.Not(fixed), v.pbn[n] == M.OptBN.some(r))))),
        ] + [("inv." + nm, g) for nm, g in S.inv(v)]

    reg.add(Contract(
        "biobalm.succession_diagram.SuccessionDiagram.node_percolated_network",
        params=[("self", SD), ("node_id", TInt), ("compute", TBool)], defaults={"compute": False}, result_type=TNetObj,
        properties=("C10", "C16"),
        requires=[lambda c: S.inv_all(c.self), lambda c: S.valid(c.self, c.node_id)],
        modifies={"self": ["pbn"]},
        may_raise={"KeyError": {"only_when": lambda c: z3.And(z3.Not(c.compute), M.OptBN.is_none(c.self.pbn[c.node_id]),
                                                              T.card(c.self.space[c.node_id]) != T.nvars(N(c.self)))}},
        raises={"KeyError": [("nothing_changed", lambda c: z3.And(c.self.pbn == c.old.self.pbn, z3.Not(c.compute)))]},
        ensures=[(nm, pick(pbn_post, nm)) for nm in ["value_independent_of_caches", "only_this_cache_filled"] + ["inv." + x for x in INVN]],
        local_types={"network": M.OptBN},
    ), method_of="SD")


def _install_skip4(reg):
    from pyvc.externals_aeon import TNetObj, bn_net_of, net_of
    from .deps import SrcOf
    NODEF = ("space", "expanded", "skipped", "parent", "cand", "seeds", "sets", "ppn", "pbn", "pnfvs")
    NODEF_NOEXP = ("space", "skipped", "parent", "cand", "seeds", "sets", "ppn", "pbn", "pnfvs")
    INVN = [nm for nm, _ in S.inv(M.View(_dummy_ho()))]
    EMPTYS = z3.K(Name, z3.IntVal(-1))
    ALLF = ["K", "space", "expanded", "skipped", "parent", "cand", "seeds", "sets", "ppn", "pbn", "pnfvs",
            "edge", "motifs", "motif0", "succsig", "depth", "index"]
    EDGEF = ["edge", "motifs", "motif0", "succsig", "depth"]
    TW = TList(TTuple(TInt, TSpace))
    TT = TTuple(TInt, TSpace)
    l, e, ss, bq = z3.Const("l!r", LS.sort()), z3.Const("e!r", T.SpaceS), z3.Const("ss!r", T.SrcSet), z3.Const("b!r", T.BNS)
    k_, k2_ = z3.Int("k!s"), z3.Int("k!s2")
    i_, x_, y_ = z3.Int("i"), z3.Int("x"), z3.Int("y")

    def N(v):
        return S.net(v)

    def pick(fn, nm):
        return lambda c: dict(fn(c))[nm]

    def entry(c):
        return c.old.self if c.old is not None else c.self

    def R0(c):
        return entry(c).space[0]

    def lem_root(c):
        """L4+L5 for the percolated root network; L3 facts; L2: every node lies inside the root; definition of EnumInside"""
        o = entry(c)
        Nn, Sp = N(o), o.space[0]
        glue = z3.ForAll([l, e, ss, bq], z3.Implies(
            z3.And(T.IsEnum(l, T.TrapSol(T.PNOfNet(bq), 0, False, e, T.no_avoid, ss)), e == EMPTYS,
                   z3.Or(bq == T.PercNetObj(o.net, Sp), z3.And(bq == T.EmptyBN, T.card(Sp) == T.nvars(Nn)))),
            z3.And(T.IsEnum(T.map_union_l(Sp, l), T.MinTrapSet(Nn, Sp)), S.min_trap_facts(Nn, Sp, T.map_union_l(Sp, l)))),
            patterns=[T.IsEnum(l, T.TrapSol(T.PNOfNet(bq), 0, False, e, T.no_avoid, ss))])
        return glue

    def lem_inside(c):
        """for every node space S (a trap space inside the root): EnumInside(N, minimal_traps, S) with its facts"""
        v = c.self
        Nn, mt = N(v), c.minimal_traps
        Sp = R0(c)
        sv = z3.Const("S!in", T.SpaceS)
        return z3.Implies(T.IsEnum(mt, T.MinTrapSet(Nn, Sp)), z3.ForAll([sv], z3.Implies(
            z3.And(T.IsTrap(Nn, sv), T.Perc(Nn, sv) == sv, T.wf_space(sv)),
            z3.And(T.subspace(sv, Sp), S.EnumInside(Nn, mt, sv), S.enum_inside_facts(Nn, mt, sv),
                   z3.Implies(T.MinTrapSet(Nn, sv)[sv], z3.Exists([k_], z3.And(0 <= k_, k_ < LS.len(mt), LS.at(mt)[k_] == sv))))),
            patterns=[T.IsTrap(Nn, sv)]))

    def lem_card_bound4(c):
        sq = z3.Const("s!cb4", T.SpaceS)
        Nn = N(c.self)
        return z3.ForAll([sq], z3.Implies(z3.And(T.wf_space(sq), T.dom_within(sq, Nn)), T.card(sq) <= T.nvars(Nn)), patterns=[T.card(sq)])

    def tw_ok(c, v, upto):
        """the first `upto` entries of trap_with_id pair each minimal trap space with its (expanded, successor-free) node"""
        tw, mt = c.trap_with_id, c.minimal_traps
        ent = lambda kk: TW.at(tw)[kk]
        return z3.And(TW.len(tw) == upto, z3.ForAll([k_], z3.Implies(z3.And(0 <= k_, k_ < upto), z3.And(
            TT.get(ent(k_), 1) == LS.at(mt)[k_], S.valid(v, TT.get(ent(k_), 0)), v.space[TT.get(ent(k_), 0)] == LS.at(mt)[k_],
            v.expanded[TT.get(ent(k_), 0)], v.succsig[TT.get(ent(k_), 0)] == S.nosucc))))

    def changesA(v, o, Nn, Sp):
        """loop A only creates nodes for minimal trap spaces and marks them expanded"""
        return z3.And(
            S.frame_nodes(v, o, fields=("space", "skipped", "parent", "cand", "seeds", "sets", "ppn", "pnfvs", "succsig")),
            z3.ForAll([i_], z3.Implies(z3.And(0 <= i_, i_ < o.K, o.expanded[i_]), v.expanded[i_])),
            z3.ForAll([i_], z3.Implies(z3.And(0 <= i_, i_ < v.K, v.expanded[i_], z3.Or(i_ >= o.K, z3.Not(o.expanded[i_]))),
                                       z3.And(v.succsig[i_] == S.nosucc, T.MinTrapSet(Nn, Sp)[v.space[i_]]))),
            z3.ForAll([x_, y_], z3.Implies(z3.And(0 <= x_, x_ < o.K, 0 <= y_, y_ < o.K), z3.And(
                v.edge[x_][y_] == o.edge[x_][y_], v.motifs[x_][y_] == o.motifs[x_][y_], v.motif0[x_][y_] == o.motif0[x_][y_]))),
            z3.ForAll([x_, y_], z3.Implies(z3.And(0 <= x_, x_ < v.K, z3.Or(x_ >= o.K, y_ >= o.K)), z3.Not(v.edge[x_][y_]))),
            v.K >= o.K, v.net == o.net, v.sym == o.sym, v.pn == o.pn,
            z3.ForAll([i_], z3.Implies(z3.And(0 <= i_, i_ < o.K), v.depth[i_] >= o.depth[i_])))

    def loopA(c):
        v, o = c.self, c.old.self
        return [("inv." + nm, g) for nm, g in S.inv(v)] + [
            ("pairs", tw_ok(c, v, c.i)),
            ("only_minimal_traps_added", changesA(v, o, N(o), o.space[0])),
        ]

    def cleared(v, n):
        return z3.And(v.cand[n] == M.OptLS.none().t, v.seeds[n] == M.OptLS.none().t, v.sets[n] == M.OptLV.none().t)

    def changesB(c, v, a, upto, exempt=None):
        """relative to the diagram `a` after loop A: nodes below `upto` that were stubs are now skip nodes; everything else is untouched"""
        ex = (lambda n: n != exempt) if exempt is not None else (lambda n: z3.BoolVal(True))
        return z3.And(
            v.K == a.K, v.index == a.index, v.net == a.net, v.sym == a.sym, v.pn == a.pn,
            S.frame_nodes(v, a, fields=("space", "parent", "ppn", "pbn", "pnfvs")),
            z3.ForAll([i_], z3.Implies(z3.And(0 <= i_, i_ < a.K, ex(i_), z3.Or(i_ >= upto, a.expanded[i_])), z3.And(
                v.expanded[i_] == a.expanded[i_], v.skipped[i_] == a.skipped[i_], v.cand[i_] == a.cand[i_], v.seeds[i_] == a.seeds[i_],
                v.sets[i_] == a.sets[i_], v.succsig[i_] == a.succsig[i_]))),
            z3.ForAll([i_], z3.Implies(z3.And(0 <= i_, i_ < upto, ex(i_), z3.Not(a.expanded[i_])), z3.And(v.expanded[i_], v.skipped[i_], cleared(v, i_)))),
            z3.ForAll([x_, y_], z3.Implies(z3.And(0 <= x_, x_ < a.K, ex(x_), z3.Or(x_ >= upto, a.expanded[x_])), z3.And(
                v.edge[x_][y_] == a.edge[x_][y_], z3.Implies(z3.And(0 <= y_, y_ < a.K), z3.And(
                    v.motifs[x_][y_] == a.motifs[x_][y_], v.motif0[x_][y_] == a.motif0[x_][y_]))))),
            z3.ForAll([i_], z3.Implies(z3.And(0 <= i_, i_ < a.K), v.depth[i_] >= a.depth[i_])))

    def loopB(c):
        v, a = c.self, c.at_entry(1).self
        return [("inv." + nm, g) for nm, g in S.inv(v)] + [
            ("pairs", tw_ok(c, v, LS.len(c.minimal_traps))),
            ("enumeration", T.IsEnum(c.minimal_traps, T.MinTrapSet(N(v), R0(c)))),
            ("processed_prefix", changesB(c, v, a, c.i)),
            ("range", z3.And(0 <= c.i, c.i <= v.K)),
            ("count", c.skipped_nodes >= 0),
        ]

    def loopC(c):
        v, a, n = c.self, c.at_entry(1).self, c.node_id
        tw, mt = c.trap_with_id, c.minimal_traps
        ent = lambda kk: TW.at(tw)[kk]
        return [("inv." + nm, g) for nm, g in S.inv(v, exempt=n)] + [
            ("pairs", tw_ok(c, v, LS.len(mt))),
            ("enumeration", T.IsEnum(mt, T.MinTrapSet(N(v), R0(c)))),
            ("processed_prefix", changesB(c, v, a, c.outer(1)["i"], exempt=n)),
            ("node_in_progress", z3.And(S.valid(v, n), n == c.outer(1)["i"], z3.Not(a.expanded[n]), z3.Not(v.expanded[n]), z3.Not(v.skipped[n]),
                                        cleared(v, n), v.space[n] == a.space[n])),
            ("signature_so_far", v.succsig[n] == S.FoldSigF(N(v), mt, v.space[n], c.i)),
            ("edges_so_far", z3.ForAll([k_], z3.Implies(z3.And(0 <= k_, k_ < c.i, T.subspace(LS.at(mt)[k_], v.space[n])),
                                                        v.edge[n][TT.get(ent(k_), 0)]))),
            ("count", z3.And(c.skipped_nodes >= 0, c.skip_edges >= 0)),
        ]

    def post(c):
        v, o = c.self, c.old.self
        return [("inv." + nm, g) for nm, g in S.inv(v)] + [
            ("everything_expanded", z3.ForAll([i_], z3.Implies(S.valid(v, i_), v.expanded[i_]))),
            ("expanded_nodes_untouched", S.ext(v, o)),
            ("former_stubs", z3.ForAll([i_], z3.Implies(z3.And(0 <= i_, i_ < o.K, z3.Not(o.expanded[i_])), z3.Or(
                z3.And(v.skipped[i_], cleared(v, i_)),
                z3.And(z3.Not(v.skipped[i_]), v.succsig[i_] == S.nosucc, v.cand[i_] == o.cand[i_], v.seeds[i_] == o.seeds[i_], v.sets[i_] == o.sets[i_]))))),
            ("count_nonneg", c.result >= 0),
        ]

    names = ["inv." + x for x in INVN] + ["everything_expanded", "expanded_nodes_untouched", "former_stubs", "count_nonneg"]
    reg.add(Contract(
        "biobalm.succession_diagram.SuccessionDiagram.skip_remaining",
        params=[("self", SD)], result_type=TInt,
        properties=("C14", "C05", "C03"),
        requires=[lambda c: S.inv_all(c.self)],
        modifies={"self": ALLF},
        may_raise={"RuntimeError": {"modifies": {"self": ["pbn"]}}},
        raises={"RuntimeError": [("inv_kept", lambda c: S.inv_all(c.self))]},
        ensures=[(nm, pick(post, nm)) for nm in names],
        lemmas=[("L4+L5.min_traps_of_percolated_root+L3.min_trap_facts", lem_root)],
        loops={
            0: LoopContract("for m_trap in minimal_traps", loopA, havoc_heap={"self": ALLF}),
            1: LoopContract("for node_id in self.node_ids()", loopB, havoc_heap={"self": ALLF},
                            lemmas=[("L3.min_traps_inside(EnumInside)+L2.below_root", lem_inside)]),
            2: LoopContract("for m_id, m_trap in trap_with_id", loopC, havoc_heap={"self": EDGEF},
                            lemmas=[("L3.min_traps_inside(EnumInside)+L2.below_root", lem_inside), ("def.card(bounded)", lem_card_bound4),
                                    ("def.SkipOK", lambda c: S.skipok_intro_inside(N(c.self), c.self.space[c.node_id], c.minimal_traps, c.self.succsig[c.node_id]))]),
        },
        local_types={"minimal_traps": LS, "trap_with_id": TW, "skipped_nodes": TInt, "skip_edges": TInt},
    ), method_of="SD")


# ====================================================================== is_subgraph / is_isomorphic (C20)
def _install_compare(reg):
    INVN = [nm for nm, _ in S.inv(M.View(_dummy_ho()))]
    NODEF = ("space", "expanded", "skipped", "parent", "cand", "seeds", "sets", "ppn", "pbn", "pnfvs")
    a_, b_, t_ = z3.Int("a"), z3.Int("b"), z3.Int("t")

    def unchanged(v, o):
        return identical(v, o)

    D = M.TDict(TInt, TInt)

    def has(vo, sp):
        """some node of `vo` has exactly the space sp (spaces are unique per diagram, I-key): decided by the key index"""
        return z3.And(T.dom_within(sp, S.net(vo)), D.dom(vo.index)[T.SKey(S.net(vo), sp)])

    def idof(vo, sp):
        return D.vals(vo.index)[T.SKey(S.net(vo), sp)]

    def succ_ok(vs, vo, jn, s):
        """successor s of a node of `self` matched with node jn of `other`: other has the edge to the node with the same space"""
        return z3.And(has(vo, vs.space[s]), vo.expanded[jn], vo.edge[jn][idof(vo, vs.space[s])])

    def node_ok(vs, vo, n):
        jn = idof(vo, vs.space[n])
        return z3.And(has(vo, vs.space[n]),
                      z3.Implies(vs.expanded[n], z3.ForAll([a_], z3.Implies(z3.And(S.valid(vs, a_), vs.edge[n][a_]), succ_ok(vs, vo, jn, a_)))))

    def spec(vs, vo):
        return z3.ForAll([i], z3.Implies(S.valid(vs, i), node_ok(vs, vo, i)))

    def both_inv(c):
        return z3.And(S.inv_all(c.self), S.inv_all(c.other), c.self.net == c.other.net)

    def lem_key(c):
        """L10.key_injective between the two diagrams (same network): equal keys <=> equal spaces; used for uniqueness of matches"""
        vs, vo = c.self, c.other
        Nn = S.net(vo)
        return z3.ForAll([a_, b_], z3.Implies(z3.And(S.valid(vo, a_), S.valid(vo, b_), vo.space[a_] == vo.space[b_]), a_ == b_))

    def outer_inv(c):
        vs, vo = c.self, c.other
        return [("inv_both", both_inv(c)), ("unchanged", z3.And(unchanged(vs, c.old.self), unchanged(vo, c.old.other))),
                ("prefix_matched", z3.ForAll([i], z3.Implies(z3.And(0 <= i, i < c.i), node_ok(vs, vo, i)))),
                ("range", z3.And(0 <= c.i, c.i <= vs.K))]

    def inner_inv(c):
        vs, vo = c.self, c.other
        n = c.outer(0)["i"]
        OI2 = TOpt(TInt)
        jn = OI2.val(c.other_i) if c.val("other_i").ty == OI2 else c.other_i
        return [("inv_both", both_inv(c)), ("unchanged", z3.And(unchanged(vs, c.old.self), unchanged(vo, c.old.other))),
                ("prefix_matched", z3.ForAll([i], z3.Implies(z3.And(0 <= i, i < n), node_ok(vs, vo, i)))),
                ("node_matched", z3.And(S.valid(vs, n), c.local("i") == n, vs.expanded[n], S.valid(vo, jn), vo.space[jn] == vs.space[n])),
                ("successor_list", z3.And(
                    z3.ForAll([a_], z3.Implies(z3.And(0 <= a_, a_ < LI.len(c.coll)), z3.And(S.valid(vs, LI.at(c.coll)[a_]), vs.edge[n][LI.at(c.coll)[a_]]))),
                    z3.ForAll([b_], z3.Implies(vs.edge[n][b_], z3.Exists([a_], z3.And(0 <= a_, a_ < LI.len(c.coll), LI.at(c.coll)[a_] == b_))),
                              patterns=[vs.edge[n][b_]]))),
                ("successors_matched_so_far", z3.ForAll([a_], z3.Implies(z3.And(0 <= a_, a_ < c.i), succ_ok(vs, vo, jn, LI.at(c.coll)[a_])),
                                                        patterns=[LI.at(c.coll)[a_]]))]

    reg.add(Contract(
        "biobalm.succession_diagram.SuccessionDiagram.is_subgraph",
        params=[("self", SD), ("other", SD)], result_type=TBool, properties=("C20",),
        requires=[lambda c: both_inv(c), lambda c: z3.And(c.self.cfg_max_motifs_per_node >= 0, c.other.cfg_max_motifs_per_node >= 0)],
        modifies={"self": [], "other": []},
        ensures=[("decides_inclusion_of_nodes_and_edges", lambda c: c.result == spec(c.self, c.other)),
                 ("nothing_changed", lambda c: z3.And(unchanged(c.self, c.old.self), unchanged(c.other, c.old.other)))],
        lemmas=[("L10.key_injective(unique nodes)", lem_key)],
        loops={0: LoopContract("for i in self.node_ids()", outer_inv, havoc_heap={"self": [], "other": []},
                               lemmas=[("L10.key_injective(unique nodes)", lem_key)]),
               1: LoopContract("for my_s in my_successors", inner_inv, havoc_heap={"self": [], "other": []},
                               lemmas=[("L10.key_injective(unique nodes)", lem_key)])},
        local_types={"other_successors": LI, "my_successors": LI, "other_i": TOpt(TInt), "other_s": TOpt(TInt)},
        note="both diagrams must be over the same network object semantics (the docstring's 'same subset of variables' case is not covered)",
    ), method_of="SD")

    reg.add(Contract(
        "biobalm.succession_diagram.SuccessionDiagram.is_isomorphic",
        params=[("self", SD), ("other", SD)], result_type=TBool, properties=("C20",),
        requires=[lambda c: both_inv(c), lambda c: z3.And(c.self.cfg_max_motifs_per_node >= 0, c.other.cfg_max_motifs_per_node >= 0)],
        modifies={"self": [], "other": []},
        ensures=[("decides_equality_of_node_and_edge_sets", lambda c: c.result == z3.And(spec(c.self, c.other), spec(c.other, c.self)))],
    ), method_of="SD")


# ====================================================================== construction and pickling (C16, C20)
def _install_state(reg):
    from pyvc.contract import CustomParam
    from pyvc.externals_aeon import TAeonText, to_aeon_fn, from_aeon_fn, cleanup_fn, graph_of, AX_AEON, Canonical, canon_fn
    OptCfg = TOpt(M.TConfig)
    CFG = ["cfg_" + k for k in M.CONFIG_KEYS]
    OptLN = M.OptLN

    # ---- trusted dependencies
    reg.add(Contract(
        "biobalm.interaction_graph_utils.cleanup_network", params=[("network", TNetObj)], result_type=TNetObj, trusted=True,
        properties=("C16", "C20"),
        ensures=[("is_cleanup", lambda c: c.result == cleanup_fn(c.network)),
                 ("same_dynamics", lambda c: bn_net_of(c.result) == bn_net_of(c.network))],
        may_raise={"AssertionError": {}},
        note="ASSUMED: infer_valid_graph keeps variables, their order and update functions; parametrised networks are rejected (AssertionError)"))
    reg.add(Contract(
        "biobalm.petri_net_translation.network_to_petrinet", params=[("network", TNetObj), ("symbolic_context", TOpt(TObj("SymbolicContext")))],
        defaults={"symbolic_context": None},
        result_type=M.TPN, trusted=True, properties=("C10", "C20"),
        ensures=[("encodes_network", lambda c: T.Encodes(c.result, bn_net_of(c.network), EMPTY)),
                 ("is_translation", lambda c: c.result == T.PNOfNet(c.network))],
        note="ASSUMED (bounded validation, C10): the Petri net encodes the asynchronous dynamics of the network"))

    # ---- default_config: the literal values (the model constant DefaultCfg is checked against the source on every run)
    def dc_post(c):
        r = c._result_val
        if not isinstance(r, E._PyRecord) or set(r.items) != set(M.CONFIG_KEYS) | {"debug"}:
            return z3.BoolVal(False)
        return z3.And(z3.Not(r.items["debug"].t), *[r.items[k].t == M.DEFAULTS[k] for k in M.CONFIG_KEYS])
    reg.add(Contract("biobalm.succession_diagram.SuccessionDiagram.default_config", params=[], properties=("C16", "C14"),
                     ensures=[("is_the_documented_default_record", dc_post)]))

    # ---- __getstate__
    def gs_post(c):
        r, v = c._result_val, c.self
        if not isinstance(r, E._PyRecord) or set(r.items) != {"network_rules", "petri_net", "nfvs", "dag", "node_indices", "config"}:
            return [("is_state_record", z3.BoolVal(False))] * 1
        it = r.items
        live = lambda x, kind: isinstance(x, M._V) and x.kind == kind and x.sd.t == c.val("self").t
        return [("is_state_record", z3.BoolVal(True)),
                ("rules_are_the_network_text", it["network_rules"].t == to_aeon_fn(v.net) if it["network_rules"].ty == TAeonText else z3.BoolVal(False)),
                ("petri_net", it["petri_net"].t == v.pn if it["petri_net"].ty == M.TPN else z3.BoolVal(False)),
                ("nfvs", it["nfvs"].t == v.nfvs if it["nfvs"].ty == OptLN else z3.BoolVal(False)),
                ("dag_is_the_diagrams_graph", z3.BoolVal(live(it["dag"], "dag"))),
                ("index", it["node_indices"].t == v.index if it["node_indices"].ty == M.TDict(TInt, TInt) else z3.BoolVal(False)),
                ("config_is_the_diagrams_config", z3.BoolVal(live(it["config"], "config"))),
                ("nothing_modified", z3.And(identical(v, c.old.self), v.nfvs == c.old.self.nfvs, *[getattr(v, f) == getattr(c.old.self, f) for f in CFG]))]
    GS = ["is_state_record", "rules_are_the_network_text", "petri_net", "nfvs", "dag_is_the_diagrams_graph", "index",
          "config_is_the_diagrams_config", "nothing_modified"]
    reg.add(Contract(
        "biobalm.succession_diagram.SuccessionDiagram.__getstate__", params=[("self", SD)], properties=("C16",),
        ensures=[(nm, (lambda k: (lambda c: dict(gs_post(c)).get(k, z3.BoolVal(False))))(nm)) for nm in GS]), method_of="SD")

    # ---- __setstate__
    def mk_state(eng, st, name):
        cfg = M.TConfig.fresh(name + ".config")
        nf = OptLN.fresh(name + ".nfvs")
        st.assume(OptLN.wf(nf.t))
        ix = M.TDict(TInt, TInt).fresh(name + ".node_indices")
        return E._PyRecord({"network_rules": TAeonText.fresh(name + ".network_rules"), "petri_net": M.TPN.fresh(name + ".petri_net"),
                            "nfvs": nf, "dag": M.fresh_dag_value(name + ".dag"), "node_indices": ix, "config": cfg})

    def ss_post(c):
        v, it = c.self, c.val("state").items
        dg = it["dag"].a[0]
        net = cleanup_fn(from_aeon_fn(it["network_rules"].t))
        return [("network_is_rebuilt_from_the_rules", v.net == net),
                ("symbolic_graph_is_of_that_network", v.sym == graph_of(net)),
                ("petri_net", v.pn == it["petri_net"].t), ("nfvs", v.nfvs == it["nfvs"].t), ("index", v.index == it["node_indices"].t),
                ("dag", z3.And(*[getattr(v, f) == dg[f].t for f in M.DAG_FIELDS])),
                ("config", z3.And(*[getattr(v, "cfg_" + k) == M.cfg_get[k](it["config"].t) for k in M.CONFIG_KEYS]))]
    SS = ["network_is_rebuilt_from_the_rules", "symbolic_graph_is_of_that_network", "petri_net", "nfvs", "index", "dag", "config"]
    reg.add(Contract(
        "biobalm.succession_diagram.SuccessionDiagram.__setstate__", params=[("self", SD), ("state", CustomParam(mk_state))],
        properties=("C16",),
        requires=[lambda c: z3.Not(M.cfg_debug(c.val("state").items["config"].t))],
        modifies={"self": True},
        ensures=[(nm, (lambda k: (lambda c: dict(ss_post(c))[k]))(nm)) for nm in SS],
        may_raise={"AssertionError": {}}, raises={"AssertionError": []},
        note="self is an uninitialised object on entry (all fields arbitrary)"), method_of="SD")

    # ---- __init__
    def init_post(c):
        v = c.self
        cfg = z3.If(OptCfg.is_none(c.config), M.DefaultCfg, OptCfg.val(c.config))
        nonec, nonev = M.OptLS.none().t, M.OptLV.none().t
        return [("network_is_cleaned_argument", z3.And(v.net == canon_fn(c.network), Canonical(v.net))),
                ("symbolic_graph_is_of_that_network", v.sym == graph_of(v.net)),
                ("petri_net_is_translation", v.pn == T.PNOfNet(c.network)),
                ("nfvs_not_computed", OptLN.is_none(v.nfvs)),
                ("config", z3.And(*[getattr(v, "cfg_" + k) == M.cfg_get[k](cfg) for k in M.CONFIG_KEYS])),
                ("single_unexpanded_root", z3.And(
                    v.K == 1, z3.Not(v.expanded[0]), z3.Not(v.skipped[0]), v.depth[0] == 0, OptInt.is_none(v.parent[0]),
                    v.cand[0] == nonec, v.seeds[0] == nonec, v.sets[0] == nonev,
                    M.OptPN.is_none(v.ppn[0]), M.OptBN.is_none(v.pbn[0]), M.OptLN.is_none(v.pnfvs[0]),
                    z3.ForAll([x, y], z3.Not(v.edge[x][y]))))] + [("inv." + nm, g) for nm, g in S.inv(v)]
    IP = ["network_is_cleaned_argument", "symbolic_graph_is_of_that_network", "petri_net_is_translation", "nfvs_not_computed", "config",
          "single_unexpanded_root"] + ["inv." + nm for nm, _ in S.inv(M.View(_dummy_ho()))]
    reg.add(Contract(
        "biobalm.succession_diagram.SuccessionDiagram.__init__",
        params=[("self", SD), ("network", TNetObj), ("config", OptCfg)], defaults={"config": None},
        properties=("C20", "C16", "C02"),
        requires=[lambda c: z3.Implies(z3.Not(OptCfg.is_none(c.config)), z3.Not(M.cfg_debug(OptCfg.val(c.config))))],
        modifies={"self": True},
        ensures=[(nm, (lambda k: (lambda c: dict(init_post(c))[k]))(nm)) for nm in IP],
        may_raise={"AssertionError": {}}, raises={"AssertionError": []},
        lemmas=[("L2.perc_trap(empty space)", lambda c: z3.And(*[z3.And(T.IsTrap(n_, EMPTY), T.wf_space(EMPTY), T.dom_within(EMPTY, n_))
                                                                  for n_ in (bn_net_of(c.network), bn_net_of(cleanup_fn(c.network)), bn_net_of(canon_fn(c.network)))]))],
        axioms=AX_AEON,
        note="self is an uninitialised object on entry (all fields arbitrary); the diagram invariant is ESTABLISHED here"), method_of="SD")

    # ---- schema lemma: unpickling the pickled state gives back the same abstract diagram (C16)
    def roundtrip(fresh):
        """For every diagram view v whose network is in canonical form (cleaned, variables in name order: what __init__ establishes since the
        fix of D15) and whose symbolic graph is the graph of that network
        (both established by __init__ / __setstate__ and framed by every operation), the state record produced by the
        postcondition of __getstate__ fed to the postcondition of __setstate__ yields a view that is identical field by field."""
        v, w = fresh("vp"), fresh("vq")
        rules = z3.Const("rt.rules", TAeonText.sort())
        cfg = z3.Const("rt.cfg", M.TConfig.sort())
        get = z3.And(rules == to_aeon_fn(v.net), *[M.cfg_get[k](cfg) == getattr(v, "cfg_" + k) for k in M.CONFIG_KEYS])
        net = cleanup_fn(from_aeon_fn(rules))
        sett = z3.And(w.net == net, w.sym == graph_of(net), w.pn == v.pn, w.nfvs == v.nfvs, w.index == v.index,
                      *([getattr(w, f) == getattr(v, f) for f in M.DAG_FIELDS] +
                        [getattr(w, "cfg_" + k) == M.cfg_get[k](cfg) for k in M.CONFIG_KEYS]))
        hyp = z3.And(Canonical(v.net), v.sym == graph_of(v.net))
        same = z3.And(identical(w, v), w.nfvs == v.nfvs, *[getattr(w, f) == getattr(v, f) for f in CFG])
        return z3.Implies(z3.And(hyp, get, sett), z3.And(same, Canonical(w.net), w.sym == graph_of(w.net))), AX_AEON
    S.EXTRA_SCHEMAS["S.pickle_roundtrip_is_identity"] = roundtrip
