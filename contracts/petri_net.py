"""Contracts for biobalm/petri_net_translation.py. Sidecar; no repository code."""
import z3
from pyvc.vtypes import *
from pyvc.contract import Contract, LoopContract
from pyvc import theory as T
from pyvc import pnmodel as P
from pyvc import engine as ENG

G = P.PNGraph
n, m = z3.Const("n", P.PNode), z3.Const("m", P.PNode)
v = z3.Const("v", Name)
SN = TSet(P.TPNode)


def E(g, a, b):
    """effective edge of a graph value"""
    return z3.And(G.nodes(g)[a], G.nodes(g)[b], G.edge(g)[a][b])


def bipartite(g):
    return z3.ForAll([n, m], z3.Implies(E(g, n, m), P.is_place(n) != P.is_place(m)))


def fixed_place(T_, var):
    return P.place(var, T_[var] != 0)


def inverse_place(T_, var):
    return P.place(var, z3.Not(T_[var] != 0))


def applicable(g, T_, var):
    return z3.And(T_[var] >= 0, G.nodes(g)[P.place(var, True)], G.nodes(g)[P.place(var, False)])


def in_del(g, T_, var, x):
    f, i = fixed_place(T_, var), inverse_place(T_, var)
    return z3.Or(x == f, x == i,
                 z3.And(E(g, x, f), z3.Not(E(g, f, x))), z3.And(E(g, x, i), z3.Not(E(g, i, x))), E(g, i, x))


def restricted_nodes(g, T_, which):
    """node set of g after restriction by the variables v with which(v)"""
    return lambda x: z3.And(G.nodes(g)[x], z3.Not(z3.Exists([v], z3.And(which(v), applicable(g, T_, v), in_del(g, T_, v, x)))))


def v2p_text(variable, positive):
    return z3.If(positive, z3.Concat(z3.StringVal("b1_"), variable), z3.Concat(z3.StringVal("b0_"), variable))


def _p2v_apply(eng, st, c, argmap, exprmap, node):
    """call sites: the abstract projections of a place name; the call raises for a non-place, so the caller must know it is one"""
    p = argmap["place"].t
    eng.oblige(st, f"pre.place_to_variable.is_a_place_name@{node.lineno}", P.is_place(p), node.lineno, kind="pre")
    return ENG._PyTuple([Val(TName, P.pvar(p)), vbool(P.ppos(p))])


def install(reg):
    from pyvc.strmodel import TStr
    # The two string functions are verified over real strings (String theory) under the names *.text;
    # everywhere else place names are the injective constructor place(variable, positive), which the
    # round-trip lemma S.place_roundtrip (proved by SMT on every run) justifies.
    reg.add(Contract(
        "biobalm.petri_net_translation.variable_to_place", params=[("variable", TStr), ("positive", TBool)], result_type=TStr,
        properties=("C10", "C09", "C17"),
        ensures=[("text", lambda c: c.result == v2p_text(c.variable, c.positive))],
        custom_apply=lambda eng, st, c, argmap, exprmap, node: Val(P.TPNode, P.place(argmap["variable"].t, eng.truth(argmap["positive"]))),
        note="call sites use the abstract constructor place(variable, positive)",
    ))
    TT = TTuple(TStr, TBool)
    reg.add(Contract(
        "biobalm.petri_net_translation.place_to_variable", params=[("place", TStr)], result_type=TT,
        properties=("C10", "C09", "C17"),
        raises={"Exception": [("only_for_non_places", lambda c: z3.And(z3.Not(z3.PrefixOf(z3.StringVal("b1_"), c.place)),
                                                                       z3.Not(z3.PrefixOf(z3.StringVal("b0_"), c.place))))]},
        ensures=[("inverse_of_variable_to_place", lambda c: z3.And(
            z3.Or(z3.PrefixOf(z3.StringVal("b1_"), c.place), z3.PrefixOf(z3.StringVal("b0_"), c.place)),
            TT.get(c.result, 1) == z3.PrefixOf(z3.StringVal("b1_"), c.place),
            c.place == v2p_text(TT.get(c.result, 0), TT.get(c.result, 1))))],
        custom_apply=_p2v_apply,
    ))

    def post(c):
        g, r, T_ = c.petri_net, c.result, c.sub_space
        return z3.And(G.edge(r) == G.edge(g),
                      z3.ForAll([n], G.nodes(r)[n] == restricted_nodes(g, T_, lambda vv: T_[vv] >= 0)(n)))

    def inv0(c):
        g, r, T_ = c.petri_net, c.local("result"), c.sub_space
        return [("restricted_by_visited", z3.And(
            G.edge(r) == G.edge(g),
            z3.ForAll([n], G.nodes(r)[n] == restricted_nodes(g, T_, lambda vv: c.visited[vv])(n))))]

    def cur(c):
        return c.local("result")

    def A1(c, x):
        r, f = cur(c), c.fixed_place
        return z3.And(E(r, x, f), z3.Not(E(r, f, x)))

    def A2(c, x):
        r, i = cur(c), c.inverse_place
        return z3.And(E(r, x, i), z3.Not(E(r, i, x)))

    def A3(c, x):
        return E(cur(c), c.inverse_place, x)

    def names(c):
        """the two place names of the current variable are what variable_to_place returns"""
        T_, var = c.sub_space, c.var
        return z3.And(c.fixed_place == P.place(var, c.value != 0), c.inverse_place == P.place(var, z3.Not(c.value != 0)),
                      c.value == T_[var], T_[var] >= 0, G.nodes(cur(c))[c.fixed_place], G.nodes(cur(c))[c.inverse_place])

    def unchanged_result(c):
        return cur(c) == c.at_head(0, "result")

    reg.add(Contract(
        "biobalm.petri_net_translation.restrict_petrinet_to_subspace",
        params=[("petri_net", P.TPNG), ("sub_space", TSpace)], result_type=P.TPNG,
        properties=("C10", "C16", "C19"),
        requires=[lambda c: bipartite(c.petri_net)],
        ensures=[("node_and_edge_sets_characterised", post)],
        ann_types={"set[str]": SN},
        local_types={"result": P.TPNG, "to_delete": SN, "fixed_place": P.TPNode, "inverse_place": P.TPNode},
        axioms=P.AX_PLACE,
        loops={
            0: LoopContract("for var, value in sub_space.items()", inv0),
            1: LoopContract("for tr in result.predecessors(fixed_place)", lambda c: [
                ("result_untouched", unchanged_result(c)), ("names", names(c)),
                ("collected", z3.ForAll([n], c.to_delete[n] == z3.And(c.visited[n], z3.Not(E(cur(c), c.fixed_place, n)))))]),
            2: LoopContract("for tr in result.predecessors(inverse_place)", lambda c: [
                ("result_untouched", unchanged_result(c)), ("names", names(c)),
                ("collected", z3.ForAll([n], c.to_delete[n] == z3.Or(A1(c, n), z3.And(c.visited[n], z3.Not(E(cur(c), c.inverse_place, n))))))]),
            3: LoopContract("for tr in result.successors(inverse_place)", lambda c: [
                ("result_untouched", unchanged_result(c)), ("names", names(c)),
                ("collected", z3.ForAll([n], c.to_delete[n] == z3.Or(A1(c, n), A2(c, n), c.visited[n])))]),
            4: LoopContract("for tr in to_delete", lambda c: [
                ("names_kept", z3.And(c.fixed_place == P.place(c.var, c.value != 0), c.inverse_place == P.place(c.var, z3.Not(c.value != 0)),
                                      c.value == c.sub_space[c.var], c.sub_space[c.var] >= 0)),
                ("to_delete_is", z3.ForAll([n], c.to_delete[n] == z3.Or(
                    z3.And(E(c.at_head(0, "result"), n, c.fixed_place), z3.Not(E(c.at_head(0, "result"), c.fixed_place, n))),
                    z3.And(E(c.at_head(0, "result"), n, c.inverse_place), z3.Not(E(c.at_head(0, "result"), c.inverse_place, n))),
                    E(c.at_head(0, "result"), c.inverse_place, n)))),
                ("removed_so_far", z3.And(G.edge(cur(c)) == G.edge(c.at_head(0, "result")), z3.ForAll(
                    [n], G.nodes(cur(c))[n] == z3.And(G.nodes(c.at_head(0, "result"))[n], z3.Not(c.visited[n]))))),
                ("places_present_at_head", z3.And(G.nodes(c.at_head(0, "result"))[c.fixed_place], G.nodes(c.at_head(0, "result"))[c.inverse_place]))]),
        },
    ))


# ====================================================================== names of the encoded network (C09, C02, C19)
def install_names(reg):
    from pyvc import aspmodel as A
    LNm = A.LNm
    G_ = P.PNGraph
    vq, nq = z3.Const("v!nm", Name), z3.Const("n!nm", P.PNode)
    a_, b_ = z3.Int("a!nm"), z3.Int("b!nm")
    OptN = TOpt(TName)

    def wf_names(c):
        """place nodes are named by the injective encoding (what network_to_petrinet produces)"""
        g = c.encoded_network
        return z3.ForAll([nq], z3.Implies(z3.And(G_.nodes(g)[nq], P.is_place(nq)), nq == P.place(P.pvar(nq), P.ppos(nq))))

    def distinct(l):
        return z3.ForAll([a_, b_], z3.Implies(z3.And(0 <= a_, a_ < b_, b_ < LNm.len(l)), LNm.at(l)[a_] != LNm.at(l)[b_]))

    reg.add(Contract(
        "biobalm.petri_net_translation.extract_variable_names", params=[("encoded_network", P.TPNG)], result_type=LNm,
        properties=("C09", "C02", "C19", "C17"),
        requires=[wf_names],
        ensures=[("sorted_enumeration_of_the_variables", lambda c: c.result == A.SortedNames(A.VarSetG(c.encoded_network))),
                 ("element_set", lambda c: A.LSetF(c.result) == A.VarSetG(c.encoded_network))],
        axioms=P.AX_PLACE + A.AX_MEMNAME + A.AX_SORTED + A.AX_NAMESETS,
        local_types={"variables": LNm},
        loops={0: LoopContract("for node in encoded_network.nodes()", lambda c: [
            ("collected_so_far", z3.And(LNm.len(c.variables) >= 0, z3.ForAll([vq], A.MemName(c.variables, vq) == z3.And(
                c.visited[P.place(vq, False)], G_.nodes(c.encoded_network)[P.place(vq, False)])))),
            ("no_duplicates", distinct(c.variables))])},
        note="variables = names v whose negative place b0_v is a node; sorted",
    ))

    def src_inv(c):
        g = c.encoded_network
        return [("removed_so_far", z3.ForAll([vq], c.source_set[vq] == z3.And(A.VarSetG(g)[vq], z3.Not(A.changed_by_some(g, vq, among=c.visited))))),
                ("visited_nodes", z3.ForAll([nq], z3.Implies(c.visited[nq], G_.nodes(g)[nq])))]

    reg.add(Contract(
        "biobalm.petri_net_translation.extract_source_variables", params=[("encoded_network", P.TPNG)], result_type=LNm,
        properties=("C09", "C02", "C19", "C18"),
        requires=[wf_names],
        ensures=[("sorted_enumeration_of_the_unchanged_variables", lambda c: c.result == A.SortedNames(A.SrcSetG(c.encoded_network))),
                 ("element_set", lambda c: A.LSetF(c.result) == A.SrcSetG(c.encoded_network))],
        axioms=P.AX_PLACE + A.AX_MEMNAME + A.AX_SORTED + A.AX_NAMESETS,
        local_types={"variables": LNm, "source_set": TSet(TName), "source_nodes": LNm},
        loops={0: LoopContract("for _, change_var in encoded_network.nodes(data='change')", src_inv)},
        note="variables that no transition changes (attribute `change` of the transition nodes), sorted",
    ))
