"""Contracts for biobalm/_sd_attractors/attractor_symbolic.py. Sidecar; no repository code."""
import z3
from pyvc.vtypes import *
from pyvc.contract import Contract, LoopContract, HeapParam
from pyvc import theory as T
from pyvc import sdmodel as M
from pyvc import vsmodel as V
from pyvc.externals_aeon import TGraph, TVarId
from . import sd_inv as S

SD = HeapParam("SD")
LVID = TList(TVarId)
MemV, AX_MEMV = T.mem_theory(LVID, "vid")
OVS = TOpt(V.TVS)
j_ = z3.Int("j")
vq = z3.Const("v!q", V.VID)


def install(reg):
    def contains(eng, st, coll, x, node):
        if coll.ty == LVID:
            return MemV(coll.t, x.t)
        return None
    reg.add_hook("contains", contains)
    reg.hooks["contains"].insert(0, reg.hooks["contains"].pop())

    def remove_facts(eng, st, ty, old, new, x, node):
        if ty == LVID:
            eng.oblige(st, f"remove_present@{node.lineno}", MemV(old, x), node.lineno, kind="safety")
            y = z3.Const(fresh_name("y"), V.VID)
            st.assume(z3.ForAll([y], z3.Implies(y != x, MemV(new, y) == MemV(old, y))))
            return True
        return None
    reg.add_hook("list_remove_facts", remove_facts)

    def concat_facts(eng, st, ty, a, b, cat):
        if ty == LVID:
            y = z3.Const(fresh_name("y"), V.VID)
            st.assume(z3.ForAll([y], MemV(cat, y) == z3.Or(MemV(a, y), MemV(b, y))))
            return True
        return None
    reg.add_hook("concat_facts", concat_facts)

    def sorted_vids(eng, st, v, kw, node):
        """sorted(list[VariableId]) with or without a literal reverse=: ASSUMED of Python's sorted and AEON's total order on VariableId - the result is a
        rearrangement of the argument (same length, a bijection of positions); the order itself is not modelled (no contract depends on it)"""
        import ast
        if v.ty != LVID or "key" in kw:
            return None
        if "reverse" in kw and not (isinstance(kw["reverse"], ast.Constant) and isinstance(kw["reverse"].value, bool)):
            return None
        res = LVID.fresh("sorted")
        a, b = z3.Int(fresh_name("a")), z3.Int(fresh_name("b"))
        n = LVID.len(res.t)
        perm = z3.Function(fresh_name("perm"), z3.IntSort(), z3.IntSort())
        inv = z3.Function(fresh_name("perminv"), z3.IntSort(), z3.IntSort())
        st.assume(n == LVID.len(v.t))
        st.assume(z3.ForAll([a], z3.Implies(z3.And(0 <= a, a < n), z3.And(0 <= perm(a), perm(a) < n, LVID.at(res.t)[a] == LVID.at(v.t)[perm(a)], inv(perm(a)) == a))))
        st.assume(z3.ForAll([b], z3.Implies(z3.And(0 <= b, b < n), z3.And(0 <= inv(b), inv(b) < n, perm(inv(b)) == b, LVID.at(res.t)[inv(b)] == LVID.at(v.t)[b]))))
        return res
    reg.add_hook("sorted", sorted_vids)

    reg.add(Contract(
        "biobalm._sd_attractors.attractor_symbolic.sort_variable_list",
        params=[("variables", LVID)], result_type=LVID, properties=("C12", "C19"),
        requires=[lambda c: LVID.len(c.variables) >= 0], axioms=AX_MEMV,
        ensures=[("permutation", lambda c: z3.And(LVID.len(c.result) == LVID.len(c.variables),
                                                   z3.ForAll([vq], MemV(c.result, vq) == MemV(c.variables, vq))))],
        note="list(sorted(variables, reverse=True)): verified against the body with sorted() modelled as a rearrangement (order of VariableId is AEON's, "
             "not modelled: callers only use the element set)"))

    g = lambda c: c.graph
    P0 = lambda c: V.SubspaceSet(c.graph, c.pivot)
    A0 = lambda c: c.avoid_set
    F = lambda c: V.Fwd(c.graph, P0(c))
    Bk = lambda c: V.Bwd(c.graph, A0(c))
    AVc = lambda c, av=None: z3.If(OVS.is_none(c.avoid if av is None else av), V.EmptyVS, OVS.val(c.avoid if av is None else av))

    def m2(c, reach, av):
        return 2 * V.vtotal(c.graph) - V.vcard(reach) - V.vcard(z3.If(OVS.is_none(av), V.EmptyVS, OVS.val(av)))

    def base(c):
        return [
            ("avoid_none_iff_empty", OVS.is_none(c.avoid) == V.Emp(A0(c))),
            ("reach_between", z3.And(V.Sub(P0(c), c.reach_set), V.Sub(c.reach_set, F(c)))),
            ("avoid_between", z3.Implies(z3.Not(OVS.is_none(c.avoid)), z3.And(V.Sub(A0(c), OVS.val(c.avoid)), V.Sub(OVS.val(c.avoid), Bk(c))))),
            ("every_variable_listed", z3.ForAll([vq], z3.Implies(V.isvid(c.graph, vq), z3.Or(
                MemV(c.saturated_vars, vq), MemV(c.conflict_vars, vq), MemV(c.other_vars, vq))))),
            ("lengths", z3.And(LVID.len(c.saturated_vars) >= 0, LVID.len(c.conflict_vars) >= 0, LVID.len(c.other_vars) >= 0)),
        ]

    def typing(c):
        """every vertex set handled here is a set of states of `graph`: cardinalities are bounded by the number of states"""
        aq = z3.Const("a!card", V.VS)
        return z3.ForAll([aq], V.vcard(aq) <= V.vtotal(c.graph), patterns=[V.vcard(aq)])

    def sat_closed(c, upto=None):
        n = LVID.len(c.saturated_vars) if upto is None else upto
        return z3.ForAll([j_], z3.Implies(z3.And(0 <= j_, j_ < n), V.Emp(V.PostOut(c.graph, LVID.at(c.saturated_vars)[j_], c.reach_set))))

    def disjoint(c):
        return V.Emp(V.In(AVc(c), c.reach_set))

    def pass_track(c):
        """relative to the head of the current pass of the main loop (loop 1)"""
        rh, ah = c.at_head(1, "reach_set"), c.at_head(1, "avoid")
        lens = LVID.len(c.conflict_vars) + LVID.len(c.other_vars)
        lens_h = LVID.len(c.at_head(1, "conflict_vars")) + LVID.len(c.at_head(1, "other_vars"))
        return [
            ("pass.flags", z3.And(c.force_forward == c.at_head(1, "force_forward"))),
            ("pass.unchanged_while_all_done", z3.Implies(c.all_done, z3.And(c.reach_set == rh, c.avoid == ah, lens == lens_h))),
            ("pass.measure_monotone", z3.And(lens <= lens_h, z3.Implies(lens == lens_h, m2(c, c.reach_set, c.avoid) <= m2(c, rh, ah)))),
            ("pass.progress_is_real", z3.Implies(c.made_progress, z3.Or(lens < lens_h, m2(c, c.reach_set, c.avoid) < m2(c, rh, ah)))),
            ("pass.forced_growth", z3.Implies(z3.And(c.force_forward, z3.Not(c.all_done)), c.made_progress)),
        ]

    def main_inv(c):
        return base(c) + [("closed_and_disjoint_when_done", z3.Implies(c.all_done, z3.And(
            z3.ForAll([vq], z3.Implies(V.isvid(c.graph, vq), V.Emp(V.PostOut(c.graph, vq, c.reach_set)))), disjoint(c))))]

    def main_variant(c):
        return [LVID.len(c.conflict_vars) + LVID.len(c.other_vars), m2(c, c.reach_set, c.avoid), z3.If(c.force_forward, 0, 1)]

    def fwd_while(c):
        return base(c) + pass_track(c) + [
            ("closed_when_saturated", z3.Implies(z3.And(c.saturation_done, c.all_done), z3.And(sat_closed(c), disjoint(c))))]

    def fwd_for(c):
        return base(c) + pass_track(c) + [
            ("closed_prefix", z3.Implies(c.all_done, z3.And(sat_closed(c, c.i), disjoint(c)))),
            ("iterating_saturated", c.coll == c.saturated_vars)]

    def bwd_while(c):
        return base(c) + pass_track(c) + [("forward_part_done", z3.Implies(c.all_done, z3.And(sat_closed(c), disjoint(c)))),
                                          ("avoid_present", z3.Not(OVS.is_none(c.avoid)))]

    def bwd_for(c):
        return bwd_while(c) + [("iterating_saturated", c.coll == c.saturated_vars)]

    def last_for(c):
        L = c.coll
        return base(c) + pass_track(c) + [
            ("forward_part_done", z3.Implies(c.all_done, z3.And(sat_closed(c), disjoint(c)))),
            ("remaining_closed_prefix", z3.Implies(c.all_done, z3.ForAll([j_], z3.Implies(
                z3.And(0 <= j_, j_ < c.i), V.Emp(V.PostOut(c.graph, LVID.at(L)[j_], c.reach_set)))))),
            ("iterating_the_remaining_variables", z3.ForAll([vq], z3.Implies(z3.Or(MemV(c.conflict_vars, vq), MemV(c.other_vars, vq)), MemV(L, vq)))),
            ("elements_are_remaining", z3.ForAll([j_], z3.Implies(z3.And(0 <= j_, j_ < LVID.len(L)), z3.Or(
                MemV(c.conflict_vars, LVID.at(L)[j_]), MemV(c.other_vars, LVID.at(L)[j_]))))),
        ]

    def post(c):
        r = c.result
        return [
            ("none_means_pivot_reaches_avoid", z3.Implies(OVS.is_none(r), z3.Not(V.Emp(V.In(Bk(c), F(c)))))),
            ("otherwise_exactly_the_forward_closure", z3.Implies(z3.Not(OVS.is_none(r)), z3.And(
                V.Sub(OVS.val(r), F(c)), V.Sub(F(c), OVS.val(r)), V.Emp(V.In(A0(c), OVS.val(r)))))),
        ]

    def frag_setup(c):
        return [z3.ForAll([vq], z3.Implies(V.isvid(c.graph, vq), z3.Or(MemV(c.conflict_vars, vq), MemV(c.other_vars, vq)))),
                LVID.len(c.conflict_vars) >= 0, LVID.len(c.other_vars) >= 0]

    def frag_order(c):
        return [z3.ForAll([vq], MemV(c.other_sorted, vq) == MemV(c.other_vars, vq)), LVID.len(c.other_sorted) == LVID.len(c.other_vars)]

    def lem_exit(c):
        """least-ness of the forward closure for the final reach set; set-algebra consequences"""
        return z3.And(V.fwd_least(c.graph, P0(c), c.reach_set))

    pick = lambda fn, nm: (lambda c: dict(fn(c))[nm])
    reg.add(Contract(
        "biobalm._sd_attractors.attractor_symbolic.symbolic_attractor_test",
        params=[("sd", SD), ("node_id", TInt), ("graph", TGraph), ("pivot", TSpace), ("avoid_set", V.TVS)],
        result_type=OVS, properties=("C01", "C12", "C13"),
        ensures=[(nm, pick(post, nm)) for nm in ["none_means_pivot_reaches_avoid", "otherwise_exactly_the_forward_closure"]],
        axioms=V.AX_VS + AX_MEMV,
        ann_types={"list[VariableId]": LVID},
        lemmas=[("L8.fwd_closure_least", lem_exit), ("typing.vertex_sets_of_graph", typing)],
        trusted_fragments=[
            {"name": "setup: conflict / other variable lists (only their union matters)", "first": "conflict_vars: list[VariableId] = []",
             "last": "other_vars = sort_variable_list(other_vars)", "sha256": "7fe20d94edf3e0a6016b48edee2e31a49a2eb028985611cb3ae4ae9bb51fe5eb",
             "assigns": {"conflict_vars": LVID, "all_conflict_vars": LVID, "other_vars": LVID}, "ensures": frag_setup},
            {"name": "ordering heuristic: BFS distances over the percolated network (only the element set of other_sorted matters)",
             "first": "network = sd.node_percolated_network(node_id)", "last": "other_sorted = sorted(other_vars, key=lambda x: distances[x])",
             "sha256": "857079ab9135d495decff0d2e90f53a8d212a3f29eadcce2ed5abf221966e635", "assigns": {"other_sorted": LVID}, "ensures": frag_order}],
        local_types={"avoid": OVS, "reach_set": V.TVS, "saturated_vars": LVID, "conflict_vars": LVID, "other_vars": LVID, "other_sorted": LVID,
                     "all_done": TBool, "force_forward": TBool, "made_progress": TBool, "saturation_done": TBool,
                     "successors": V.TVS, "updated": V.TVS, "predecessors": V.TVS, "can_go_fwd": V.TVS, "can_go_bwd": V.TVS,
                     "no_avoid": TBool, "avoid_is_larger": TBool, "all_variables_done": TBool},
        loops={
            1: LoopContract("while not all_done", main_inv, variant=main_variant, lemmas=[("typing.vertex_sets_of_graph", typing)]),
            2: LoopContract("while not saturation_done", fwd_while, lemmas=[("typing.vertex_sets_of_graph", typing)]),
            3: LoopContract("for var in saturated_vars", fwd_for, lemmas=[("typing.vertex_sets_of_graph", typing)]),
            4: LoopContract("while not saturation_done", bwd_while, lemmas=[("typing.vertex_sets_of_graph", typing)]),
            5: LoopContract("for var in saturated_vars", bwd_for, lemmas=[("typing.vertex_sets_of_graph", typing)]),
            9: LoopContract("for var in conflict_vars + other_sorted", last_for, lemmas=[("typing.vertex_sets_of_graph", typing)]),
        },
    ))


# ====================================================================== compute_attractors_symbolic: structure (C12, C01)
def install_structure(reg):
    """Second contract of compute_attractors_symbolic (`#structure`), verified against the body.  The call-site contract (attractors.py)
    states what the result MEANS (a system of representatives, their attractor sets) and stays assumed; this one proves the bookkeeping
    that meaning rests on: which candidates are tested against what, that seeds and sets are paired, in which order they are reported,
    how the sets are converted, and when the single-candidate shortcut is taken."""
    from pyvc.contract import HeapParam
    from pyvc import sdmodel as M
    from pyvc.externals_aeon import graph_of, TNetObj
    from .candidates import reduce_space
    from .attractors import structure_unchanged, RES2, args_of
    from . import sd_inv as S
    SD_ = HeapParam("SD")
    LS, LV, OptLV = M.LS, M.LV, M.OptLV
    LCV = TList(V.TVS)
    a_, b_ = z3.Int("a!cs"), z3.Int("b!cs")

    def G_(c):
        o = c.old.sd if c.old is not None else c.sd
        n = c.node_id
        bn = z3.If(T.card(o.space[n]) == T.nvars(S.net(o)), T.EmptyBN, T.PercNetObj(o.net, o.space[n]))
        return graph_of(bn)

    def NS(c):
        o = c.old.sd if c.old is not None else c.sd
        return o.space[c.node_id]

    def RC(c, k):
        return reduce_space(LS.at(c.candidate_states)[k], NS(c))

    def Mk(c, k):
        return T.union(RC(c, k), NS(c))

    def same(x, y):
        return z3.And(V.Sub(x, y), V.Sub(y, x))

    def closure_of(c, k):
        return V.Fwd(G_(c), V.SubspaceSet(G_(c), RC(c, k)))

    def conv(c, x):
        o = c.old.sd if c.old is not None else c.sd
        return V.vset_inter(V.transfer(o.sym, V.vertices_of(x), G_(c)), V.vertices_of(V.SubspaceSet(o.sym, NS(c))))

    def reduced_ok(c, upto):
        r = c.candidate_states_reduced
        return z3.And(LS.len(r) == upto, z3.ForAll([a_], z3.Implies(z3.And(0 <= a_, a_ < upto), LS.at(r)[a_] == RC(c, a_))))

    def paired(c, seeds, sets, upto):
        """every reported seed is a tested candidate (completed with the node's values) and its set is that candidate's forward closure"""
        return z3.And(LS.len(seeds) == LCV.len(sets), LS.len(seeds) >= 0, LS.len(seeds) <= upto,
                      z3.ForAll([b_], z3.Implies(z3.And(0 <= b_, b_ < LS.len(seeds)), z3.Exists([a_], z3.And(
                          0 <= a_, a_ < upto, LS.at(seeds)[b_] == Mk(c, a_), same(LCV.at(sets)[b_], closure_of(c, a_)))))),
                      # if nothing was dropped so far, the seeds are the candidates in their order
                      z3.Implies(LS.len(seeds) == upto, z3.ForAll([a_], z3.Implies(z3.And(0 <= a_, a_ < upto), LS.at(seeds)[a_] == Mk(c, a_)))))

    def main_inv(c):
        return [("reduced_candidates", reduced_ok(c, LS.len(c.candidate_states))),
                ("iterating_the_reduced_candidates", c.coll == c.candidate_states_reduced),
                ("seeds_and_sets_paired_in_candidate_order", paired(c, c.seeds, c.sets, c.i)),
                ("graph_of_the_percolated_network", c.graph_reduced == G_(c)),
                ("node_space", c.node_space == NS(c)),
                ("only_percolation_caches_filled", structure_unchanged(c.sd, c.old.sd)),
                ("inv", S.inv_all(c.sd))]

    def conv_inv(c):
        sc = c.sets_converted
        return [("converted_prefix", z3.And(LV.len(sc) == c.i, c.coll == c.sets,
                                            z3.ForAll([a_], z3.Implies(z3.And(0 <= a_, a_ < c.i), LV.at(sc)[a_] == conv(c, LCV.at(c.sets)[a_]))))),
                ("seeds_and_sets_paired_in_candidate_order", paired(c, c.seeds, c.sets, LS.len(c.candidate_states))),
                ("space_symbolic", c.space_symbolic == V.vertices_of(V.SubspaceSet(c.old.sd.sym, NS(c)))),
                ("graph_of_the_percolated_network", c.graph_reduced == G_(c)),
                ("only_percolation_caches_filled", structure_unchanged(c.sd, c.old.sd)),
                ("inv", S.inv_all(c.sd))]

    def childless(c):
        """the node has no successors in the diagram (an unexpanded node has none)"""
        o, nn = c.old.sd, c.node_id
        y_ = z3.Int("y!cs")
        return z3.Or(z3.Not(o.expanded[nn]), z3.Not(z3.Exists([y_], z3.And(0 <= y_, y_ < o.K, o.edge[nn][y_]))))

    def post(c):
        r = c.result
        seeds, osets = RES2.get(r, 0), RES2.get(r, 1)
        n = LS.len(c.candidate_states)
        cl = [("all_candidates_kept_means_same_order", z3.Implies(z3.And(z3.Not(OptLV.is_none(osets)), LS.len(seeds) == n), z3.ForAll(
                  [a_], z3.Implies(z3.And(0 <= a_, a_ < n), LS.at(seeds)[a_] == Mk(c, a_))))),
              ("every_seed_is_a_candidate_completed_with_the_node_space", z3.ForAll([b_], z3.Implies(z3.And(0 <= b_, b_ < LS.len(seeds)), z3.Exists(
                  [a_], z3.And(0 <= a_, a_ < n, LS.at(seeds)[b_] == Mk(c, a_)))))),
              ("shortcut_only_for_the_last_candidate_of_a_childless_node_when_only_seeds_are_wanted", z3.Implies(OptLV.is_none(osets), z3.And(
                  c.seeds_only, n >= 1, LS.len(seeds) == 1, LS.at(seeds)[0] == Mk(c, n - 1), childless(c)))),
              ("only_percolation_caches_filled", structure_unchanged(c.sd, c.old.sd)),
              ("inv", S.inv_all(c.sd))]
        try:
            sets = c.local("sets")
        except (KeyError, AttributeError):
            return cl
        cl.insert(2, ("sets_are_the_converted_closures_in_the_order_of_the_seeds", z3.Implies(z3.Not(OptLV.is_none(osets)), z3.And(
            LV.len(OptLV.val(osets)) == LS.len(seeds), LCV.len(sets) == LS.len(seeds),
            z3.ForAll([b_], z3.Implies(z3.And(0 <= b_, b_ < LS.len(seeds)), z3.And(
                LV.at(OptLV.val(osets))[b_] == conv(c, LCV.at(sets)[b_]),
                z3.Exists([a_], z3.And(0 <= a_, a_ < n, LS.at(seeds)[b_] == Mk(c, a_), same(LCV.at(sets)[b_], closure_of(c, a_)))))))))))
        return cl

    NAMES = ["all_candidates_kept_means_same_order", "every_seed_is_a_candidate_completed_with_the_node_space",
             "sets_are_the_converted_closures_in_the_order_of_the_seeds",
             "shortcut_only_for_the_last_candidate_of_a_childless_node_when_only_seeds_are_wanted", "only_percolation_caches_filled", "inv"]
    pick = lambda nm: (lambda c: dict(post(c)).get(nm, z3.BoolVal(True)))
    reg.add(Contract(
        "biobalm._sd_attractors.attractor_symbolic.compute_attractors_symbolic#structure",
        params=[("sd", SD_), ("node_id", TInt), ("candidate_states", LS), ("seeds_only", TBool)], defaults={"seeds_only": False},
        result_type=RES2, properties=("C12", "C01"),
        requires=[lambda c: S.inv_all(c.sd), lambda c: S.valid(c.sd, c.node_id), lambda c: LS.len(c.candidate_states) >= 0,
                  lambda c: c.sd.cfg_max_motifs_per_node >= 0],
        modifies={"sd": ["pbn"]},
        ensures=[(nm, pick(nm)) for nm in NAMES],
        axioms=V.AX_VS,
        local_types={"candidate_states_reduced": LS, "seeds": LS, "sets": LCV, "sets_converted": LV, "child_motifs_reduced": LS,
                     "node_space": TSpace, "candidate_reduced": TSpace},
        ann_types={"list[ColoredVertexSet]": LCV, "list[VertexSet]": LV},
        loops={0: LoopContract("for candidate in candidate_states", lambda c: [
                   ("reduced_prefix", reduced_ok(c, c.i)), ("node_space", c.node_space == NS(c)),
                   ("only_percolation_caches_filled", structure_unchanged(c.sd, c.old.sd)), ("inv", S.inv_all(c.sd)),
                   ("graph_of_the_percolated_network", c.graph_reduced == G_(c))]),
               1: LoopContract("for i, candidate in enumerate(candidate_states_reduced)", main_inv, havoc_heap={"sd": []}),
               2: LoopContract("for s in sets", conv_inv)},
        note="bookkeeping of the exact filtering (which candidate is tested, pairing and order of seeds and sets, conversion, shortcut); the "
             "meaning of the result (call-site contract) stays assumed"))


def install_fallback_structure(reg):
    """Second contract of symbolic_attractor_fallback (`#structure`): WHICH set of states is handed to AEON's attractor search - the node's
    states minus its successors, minus (for a skip node) the regions shared with non-ancestor nodes whose cached candidates or seeds are the
    empty list (the exclusion rule as written; known finding D12 is about this rule), reduced, minus the backward closure of the successors
    unless the node is minimal or nothing is left - and that seeds and sets are reported pairwise, one per attractor, in AEON's order.
    What the result MEANS stays with the assumed call-site contract."""
    from pyvc.contract import HeapParam
    from pyvc import sdmodel as M
    from .attractors import structure_unchanged, RES2b
    from . import sd_inv as S
    SD_ = HeapParam("SD")
    LS, LV, LI = M.LS, M.LV, M.LI
    OptLS = M.OptLS
    LCV = V.LCVS
    LN = TList(TName)
    k_ = z3.Int("k!fb")

    def sp(v, n):
        return v.space[n]

    def region(v, s):
        return V.SubspaceSet(v.sym, s)

    FoldA = z3.Function("fb_minus_children", V.G, V.VS, z3.ArraySort(I, T.SpaceS), LI.sort(), I, V.VS)      # (graph, start, spaces, child list, k)
    FoldB = z3.Function("fb_minus_skip_regions", V.G, V.VS, T.SpaceS, z3.ArraySort(I, T.SpaceS), M.TArr(OptLS).sort(), M.TArr(OptLS).sort(), I, V.VS)
    FoldU = z3.Function("fb_union_children", V.G, z3.ArraySort(I, T.SpaceS), LI.sort(), I, V.VS)
    g_, s0_, spc_, l_, n_ = z3.Const("g!fb", V.G), z3.Const("s!fb", V.VS), z3.Const("sp!fb", z3.ArraySort(I, T.SpaceS)), z3.Const("l!fb", LI.sort()), z3.Int("n!fb")
    ns_, ca_, se_ = z3.Const("ns!fb", T.SpaceS), z3.Const("ca!fb", M.TArr(OptLS).sort()), z3.Const("se!fb", M.TArr(OptLS).sort())

    def excluded(ns, spc, ca, se, n):
        """node n makes the skip node drop their common region: n is not an ancestor-or-self (node space not inside n's space), one of n's
        cached lists is the EMPTY list, and the two spaces are consistent"""
        kq = z3.Const("k!fbc", Name)
        consistent = z3.Not(z3.Exists([kq], z3.And(ns[kq] >= 0, spc[n][kq] >= 0, ns[kq] != spc[n][kq])))
        empty = lambda x: z3.And(z3.Not(OptLS.is_none(x)), LS.len(OptLS.val(x)) == 0)        # `x == []`: a list (not None) without elements
        return z3.And(z3.Not(T.subspace(ns, spc[n])), z3.Or(empty(ca[n]), empty(se[n])), consistent)

    AX = [
        z3.ForAll([g_, s0_, spc_, l_], FoldA(g_, s0_, spc_, l_, 0) == s0_, patterns=[FoldA(g_, s0_, spc_, l_, 0)]),
        z3.ForAll([g_, s0_, spc_, l_, n_], z3.Implies(n_ >= 0, FoldA(g_, s0_, spc_, l_, n_ + 1) ==
                                                     V.Mi(FoldA(g_, s0_, spc_, l_, n_), V.SubspaceSet(g_, spc_[LI.at(l_)[n_]]))),
                  patterns=[FoldA(g_, s0_, spc_, l_, n_ + 1)]),
        z3.ForAll([g_, s0_, ns_, spc_, ca_, se_], FoldB(g_, s0_, ns_, spc_, ca_, se_, 0) == s0_, patterns=[FoldB(g_, s0_, ns_, spc_, ca_, se_, 0)]),
        z3.ForAll([g_, s0_, ns_, spc_, ca_, se_, n_], z3.Implies(n_ >= 0, FoldB(g_, s0_, ns_, spc_, ca_, se_, n_ + 1) == z3.If(
            excluded(ns_, spc_, ca_, se_, n_),
            V.Mi(FoldB(g_, s0_, ns_, spc_, ca_, se_, n_), V.SubspaceSet(g_, T.union(ns_, spc_[n_]))),
            FoldB(g_, s0_, ns_, spc_, ca_, se_, n_))), patterns=[FoldB(g_, s0_, ns_, spc_, ca_, se_, n_ + 1)]),
        z3.ForAll([g_, spc_, l_], FoldU(g_, spc_, l_, 0) == V.EmptyVS, patterns=[FoldU(g_, spc_, l_, 0)]),
        z3.ForAll([g_, spc_, l_, n_], z3.Implies(n_ >= 0, FoldU(g_, spc_, l_, n_ + 1) == V.Un(FoldU(g_, spc_, l_, n_), V.SubspaceSet(g_, spc_[LI.at(l_)[n_]]))),
                  patterns=[FoldU(g_, spc_, l_, n_ + 1)]),
    ]

    def lem_ext(c):
        """array extensionality, instantiated for the common subspace of the node and node c.i: a space is ns | space[i] or differs from
        it at some key (valid in the theory of arrays; a hint for the solver, not an assumption)"""
        rq, kq = z3.Const("r!fbx", T.SpaceS), z3.Const("k!fbx", Name)
        o = O(c)
        u = T.union(sp(o, c.node_id), o.space[c.i])
        return z3.ForAll([rq], z3.Or(rq == u, z3.Exists([kq], rq[kq] != u[kq])), patterns=[V.SubspaceSet(o.sym, rq)])

    def O(c):
        return c.old.sd if c.old is not None else c.sd

    def start_set(c):
        return region(O(c), sp(O(c), c.node_id))

    def after_children(c, lst, k):
        return FoldA(O(c).sym, start_set(c), O(c).space, lst, k)

    def after_skip(c, base, k):
        o = O(c)
        return FoldB(o.sym, base, sp(o, c.node_id), o.space, o.cand, o.seeds, k)

    def frame(c):
        return structure_unchanged(c.sd, c.old.sd)

    def search_space(c):
        """the set handed to xie_beerel, built up stage by stage exactly as described in the docstring above"""
        o, n = c.old.sd, c.node_id
        g = o.sym
        cl = []
        A = region(o, sp(o, n))
        if c.passed_loop(0):
            l0 = c.outer(0)["coll"]
            cl.append(o.expanded[n])
            A = FoldA(g, A, o.space, l0, LI.len(l0))
        else:
            cl.append(z3.Not(o.expanded[n]))
        Bv = A
        if c.passed_loop(1):
            cl.append(o.skipped[n])
            Bv = FoldB(g, A, sp(o, n), o.space, o.cand, o.seeds, o.K)
        else:
            cl.append(z3.Not(o.skipped[n]))
        R = V.TGR(g, Bv, c.local("internal_nfvs"))
        minimal = z3.And(o.expanded[n], z3.Not(z3.Exists([k_], z3.And(0 <= k_, k_ < o.K, o.edge[n][k_]))))
        if c.has_local("avoid"):
            U = V.EmptyVS
            if c.passed_loop(2):
                l2 = c.outer(2)["coll"]
                U = FoldU(g, o.space, l2, LI.len(l2))
            cl += [z3.Not(minimal), z3.Not(V.Emp(R)),
                   c.local("candidates") == V.Mi(R, V.ReachBwd(g, U))]
        else:
            cl += [z3.Or(minimal, V.Emp(R)), c.local("candidates") == R]
        cl.append(c.local("attractors") == V.XieBeerel(g, c.local("candidates")))
        return z3.And(cl)

    reg.add(Contract(
        "biobalm._sd_attractors.attractor_symbolic.symbolic_attractor_fallback#structure",
        params=[("sd", SD_), ("node_id", TInt)], result_type=RES2b, properties=("C12", "C05"),
        requires=[lambda c: S.inv_all(c.sd), lambda c: S.valid(c.sd, c.node_id), lambda c: c.sd.cfg_max_motifs_per_node >= 0],
        modifies={"sd": ["pbn", "pnfvs"]},
        ensures=[("one_seed_and_one_set_per_attractor_in_order", lambda c: z3.And(
            LS.len(RES2b.get(c.result, 0)) == LCV.len(c.local("attractors")), LV.len(RES2b.get(c.result, 1)) == LCV.len(c.local("attractors")),
            z3.ForAll([k_], z3.Implies(z3.And(0 <= k_, k_ < LCV.len(c.local("attractors"))),
                                       LV.at(RES2b.get(c.result, 1))[k_] == V.vertices_of(LCV.at(c.local("attractors"))[k_]))))),
                 ("search_space_is_the_reduced_remainder", lambda c: search_space(c)),
                 ("only_percolation_caches_filled", lambda c: frame(c)), ("inv", lambda c: S.inv_all(c.sd))],
        axioms=V.AX_VS + AX,
        local_types={"candidates": V.TVS, "avoid": V.TVS, "attractors": LCV, "result_seeds": LS, "result_sets": LV, "internal_nfvs": LN,
                     "node_space": TSpace, "attr_seed_named": TSpace},
        loops={
            0: LoopContract("for s in sd.node_successors(node_id, compute=False)", lambda c: [
                ("children_removed_so_far", c.candidates == after_children(c, c.coll, c.i)), ("frame", frame(c)), ("inv", S.inv_all(c.sd)),
                ("node_space", c.node_space == sp(O(c), c.node_id))]),
            1: LoopContract("for n in sd.node_ids()", lambda c: [
                ("skip_regions_removed_so_far_by_the_rule_as_written", c.candidates == after_skip(c, c.entry_local(1, "candidates"), c.i)),
                ("frame", frame(c)), ("inv", S.inv_all(c.sd)), ("node_space", c.node_space == sp(O(c), c.node_id)), ("index", c.i >= 0)],
                lemmas=[("def.array_extensionality", lem_ext)]),
            2: LoopContract("for s in sd.node_successors(node_id)", lambda c: [
                ("union_of_the_children_so_far", c.avoid == FoldU(O(c).sym, O(c).space, c.coll, c.i)), ("frame", frame(c)), ("inv", S.inv_all(c.sd))]),
            3: LoopContract("for attr in attractors", lambda c: [
                ("paired_so_far", z3.And(LS.len(c.result_seeds) == c.i, LV.len(c.result_sets) == c.i, c.coll == c.attractors,
                                         z3.ForAll([k_], z3.Implies(z3.And(0 <= k_, k_ < c.i), LV.at(c.result_sets)[k_] == V.vertices_of(LCV.at(c.attractors)[k_]))))),
                ("frame", frame(c)), ("inv", S.inv_all(c.sd))]),
        },
        trusted_fragments=[{"name": "pick one state of the attractor and name its variables", "first": "attr_seed = next(attr_vertices.items()).to_dict()",
                            "last": "attr_seed_named = {sd.network.get_variable_name(k): v for k, v in attr_seed.items()}", "sha256": "3fc9fcaca4a67845605ab724d8bf15315d5e270ffd1bd8251327a5bbf3cdf42b",
                            "assigns": {"attr_seed_named": TSpace}, "ensures": lambda c: [T.wf_space(c.attr_seed_named)]}],
        note="the exclusion rule of the skip-node branch is pinned exactly as written (an empty cached list, not merely a falsy one); its soundness "
             "is the known finding D12, not claimed here"))
