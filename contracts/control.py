"""Contracts for biobalm/control.py (C06: every reported override really forces the motif; C07 partially). Sidecar."""
import z3
from pyvc.vtypes import *
from pyvc.contract import Contract, LoopContract
from pyvc import theory as T
from pyvc import sdmodel as M
from pyvc.itermodel import TEnum, SN
from pyvc.externals_aeon import TGraph, net_of, setcard

LS = M.LS
kn = z3.Const("k", Name)
k_ = z3.Int("k!d")
OptSpace, OptInt, OptSN = TOpt(TSpace), TOpt(TInt), TOpt(SN)
STRAT = TEnum(["internal", "all"])
LLS = TList(LS)


def install(reg):
    N = lambda c: net_of(c.bn)
    AF = lambda c: z3.If(OptSpace.is_none(c.assume_fixed), z3.K(Name, z3.IntVal(-1)), OptSpace.val(c.assume_fixed))
    FB = lambda c: z3.If(OptSN.is_none(c.forbidden_drivers), z3.K(Name, z3.BoolVal(False)), OptSN.val(c.forbidden_drivers))

    def works(c, d):
        """the logical domain of influence of d (on top of what is already fixed) contains the whole motif"""
        P = T.Perc(N(c), T.union(d, AF(c)))
        return z3.ForAll([kn], z3.Implies(c.target_trap_space[kn] >= 0, P[kn] == c.target_trap_space[kn]))

    def inner(c):
        kq = z3.Const("ck!", Name)
        return z3.Lambda([kq], z3.If(z3.And(c.target_trap_space[kq] >= 0, z3.Not(AF(c)[kq] >= 0)), c.target_trap_space[kq], -1))

    def allowed(c, d):
        """only allowed variables, at most `bound` of them"""
        bound = z3.If(OptInt.is_none(c.max_drivers_per_succession_node), T.card(inner(c)), OptInt.val(c.max_drivers_per_succession_node))
        dom = z3.Lambda([kn], d[kn] >= 0)
        pool_ok = z3.ForAll([kn], z3.Implies(d[kn] >= 0, z3.And(
            z3.Not(FB(c)[kn]),
            z3.If(c.strategy == 0, z3.And(c.target_trap_space[kn] >= 0, z3.Not(AF(c)[kn] >= 0), d[kn] == c.target_trap_space[kn]), T.isvar(N(c), kn)))))
        return z3.And(pool_ok, setcard(dom) <= bound, T.wf_space(d))

    def sound(c, lst, upto=None):
        n = LS.len(lst) if upto is None else upto
        return z3.ForAll([k_], z3.Implies(z3.And(0 <= k_, k_ < n), z3.And(works(c, LS.at(lst)[k_]), allowed(c, LS.at(lst)[k_]))))

    def inv(c):
        return [("drivers_sound", z3.And(LS.len(c.drivers) >= 0, sound(c, c.drivers))),
                ("pool", z3.ForAll([kn], z3.Implies(c.driver_pool[kn], z3.And(
                    z3.Not(FB(c)[kn]),
                    z3.If(c.strategy == 0, z3.And(c.target_trap_space[kn] >= 0, z3.Not(AF(c)[kn] >= 0)), T.isvar(N(c), kn))))))]

    reg.add(Contract(
        "biobalm.control.find_drivers",
        params=[("bn", TGraph), ("target_trap_space", TSpace), ("strategy", STRAT), ("assume_fixed", OptSpace),
                ("max_drivers_per_succession_node", OptInt), ("forbidden_drivers", OptSN)],
        defaults={"strategy": "internal", "assume_fixed": None, "max_drivers_per_succession_node": None, "forbidden_drivers": None},
        result_type=LS, properties=("C06", "C07", "C19"),
        requires=[lambda c: T.dom_within(c.target_trap_space, N(c)), lambda c: T.dom_within(AF(c), N(c)), lambda c: T.wf_space(AF(c))],
        raises={"ValueError": [("only_for_unknown_strategy", lambda c: z3.And(c.strategy != 0, c.strategy != 1))]},
        ensures=[("every_driver_forces_the_motif_and_respects_the_constraints", lambda c: sound(c, c.result))],
        local_types={"drivers": LS, "driver_pool": SN, "target_trap_space_inner": TSpace, "driver_dict": TSpace, "ldoi": TSpace,
                     },
        loops={0: LoopContract("for driver_set_size in range(max_drivers_per_succession_node + 1)", inv),
               1: LoopContract("for driver_set in combinations(driver_pool, driver_set_size)", inv),
               2: LoopContract("for vals in product([0, 1], repeat=driver_set_size)", inv)},
        note="soundness and constraint-respect of every reported override (C06, and the 'never a forbidden variable or an oversized set' clause of C07); "
             "completeness / minimality (C07) is decided by the bounded stand-in",
    ))


_EXPORT = {}


def install_succession(reg):
    EMPTYS = z3.K(Name, z3.IntVal(-1))
    AccFold = z3.Function("AccFixed", T.Net, LS.sort(), I, T.SpaceS)     # values fixed before step k of a succession
    _N, _l, _k = z3.Const("N!acc", T.Net), z3.Const("l!acc", LS.sort()), z3.Int("k!acc")
    AX_ACC = [
        z3.ForAll([_N, _l], AccFold(_N, _l, 0) == EMPTYS, patterns=[AccFold(_N, _l, 0)]),
        z3.ForAll([_N, _l, _k], z3.Implies(_k >= 0, AccFold(_N, _l, _k + 1) ==
                                           T.union(AccFold(_N, _l, _k), T.Perc(_N, T.union(LS.at(_l)[_k], AccFold(_N, _l, _k))))),
                  patterns=[AccFold(_N, _l, _k + 1)]),
    ]
    N = lambda c: net_of(c.bn)
    FB = lambda c: z3.If(OptSN.is_none(c.forbidden_drivers), z3.K(Name, z3.BoolVal(False)), OptSN.val(c.forbidden_drivers))

    def step_sound(c, k, lst):
        """every override listed for step k forces motif k once the values fixed by the previous steps are assumed, within the constraints"""
        target, AF = LS.at(c.succession)[k], AccFold(N(c), c.succession, k)
        m = z3.Int("m!d")
        d = LS.at(lst)[m]
        P = T.Perc(N(c), T.union(d, AF))
        kq = z3.Const("ck!", Name)
        inner = z3.Lambda([kq], z3.If(z3.And(target[kq] >= 0, z3.Not(AF[kq] >= 0)), target[kq], -1))
        bound = z3.If(OptInt.is_none(c.max_drivers_per_succession_node), T.card(inner), OptInt.val(c.max_drivers_per_succession_node))
        dom = z3.Lambda([kn], d[kn] >= 0)
        pool_ok = z3.ForAll([kn], z3.Implies(d[kn] >= 0, z3.And(
            z3.Not(FB(c)[kn]),
            z3.If(c.strategy == 0, z3.And(target[kn] >= 0, z3.Not(AF[kn] >= 0), d[kn] == target[kn]), T.isvar(N(c), kn)))))
        return z3.ForAll([m], z3.Implies(z3.And(0 <= m, m < LS.len(lst)), z3.And(
            z3.ForAll([kn], z3.Implies(target[kn] >= 0, P[kn] == target[kn])), pool_ok, setcard(dom) <= bound, T.wf_space(d))))

    def inv(c):
        cs = c.control_strategies
        return [("fixed_so_far", z3.And(c.assume_fixed == AccFold(N(c), c.succession, c.i), T.wf_space(c.assume_fixed), T.dom_within(c.assume_fixed, N(c)))),
                ("one_list_per_step", LLS.len(cs) == c.i),
                ("steps_sound", z3.ForAll([k_], z3.Implies(z3.And(0 <= k_, k_ < c.i), step_sound(c, k_, LLS.at(cs)[k_]))))]

    _EXPORT["step_sound"] = step_sound
    _EXPORT["AX_ACC"] = AX_ACC
    reg.add(Contract(
        "biobalm.control.drivers_of_succession",
        params=[("bn", TGraph), ("succession", LS), ("strategy", STRAT), ("max_drivers_per_succession_node", OptInt), ("forbidden_drivers", OptSN)],
        defaults={"strategy": "internal", "max_drivers_per_succession_node": None, "forbidden_drivers": None},
        result_type=LLS, properties=("C06", "C07"),
        requires=[lambda c: z3.ForAll([k_], z3.Implies(z3.And(0 <= k_, k_ < LS.len(c.succession)), z3.And(
            T.wf_space(LS.at(c.succession)[k_]), T.dom_within(LS.at(c.succession)[k_], N(c))))),
                  lambda c: z3.Or(c.strategy == 0, c.strategy == 1)],
        ensures=[("one_list_per_step", lambda c: LLS.len(c.result) == LS.len(c.succession)),
                 ("each_step_judged_relative_to_the_previous_trap_space", lambda c: z3.ForAll([k_], z3.Implies(
                     z3.And(0 <= k_, k_ < LS.len(c.succession)), step_sound(c, k_, LLS.at(c.result)[k_]))))],
        axioms=AX_ACC,
        lemmas=[("L1.perc_wf", lambda c: z3.ForAll([z3.Const("s!pw", T.SpaceS)], z3.Implies(
            z3.And(T.wf_space(z3.Const("s!pw", T.SpaceS)), T.dom_within(z3.Const("s!pw", T.SpaceS), N(c))),
            z3.And(T.wf_space(T.Perc(N(c), z3.Const("s!pw", T.SpaceS))), T.dom_within(T.Perc(N(c), z3.Const("s!pw", T.SpaceS)), N(c)))),
            patterns=[T.Perc(N(c), z3.Const("s!pw", T.SpaceS))]))],
        local_types={"control_strategies": LLS, "assume_fixed": TSpace, "ldoi": TSpace},
        loops={0: LoopContract("for ts in succession", inv, lemmas=[("L1.perc_wf", lambda c: z3.ForAll([z3.Const("s!pw", T.SpaceS)], z3.Implies(
            z3.And(T.wf_space(z3.Const("s!pw", T.SpaceS)), T.dom_within(z3.Const("s!pw", T.SpaceS), N(c))),
            z3.And(T.wf_space(T.Perc(N(c), z3.Const("s!pw", T.SpaceS))), T.dom_within(T.Perc(N(c), z3.Const("s!pw", T.SpaceS)), N(c)))),
            patterns=[T.Perc(N(c), z3.Const("s!pw", T.SpaceS))]))])},
    ))


# ====================================================================== succession_control (C06, C07)
def install_control(reg):
    """succession_control against its body: every reported intervention carries, for every step of ITS succession, only overrides that
    force the step's motif (relative to what the previous steps fixed) within the caller's constraints - the arguments are passed on
    unchanged - and `successful_only` filters exactly the interventions with an empty step.  successions_to_target (path enumeration
    over networkx) and the Intervention constructor (canonical ordering of the overrides) are assumed."""
    import types
    from pyvc.contract import HeapParam
    from pyvc.registry import ObjModel
    from pyvc import engine as E
    from . import sd_inv as S
    SD = HeapParam("SD")
    TIv = TObj("Intervention")
    LIv = TList(TIv)
    IvS = TIv.sort()
    iv_control = z3.Function("iv_control", IvS, LLS.sort())
    iv_succession = z3.Function("iv_succession", IvS, LS.sort())
    iv_strategy = z3.Function("iv_strategy", IvS, I)
    iv_successful = z3.Function("iv_successful", IvS, B)
    a_, m_, m2_ = z3.Int("a!sc"), z3.Int("m!sc"), z3.Int("m2!sc")
    step_sound = _EXPORT["step_sound"]

    class IvModel(ObjModel):
        def getattr(self, eng, st, v, attr, node):
            if attr == "successful":
                return vbool(iv_successful(v.t))
            if attr == "control":
                return Val(LLS, iv_control(v.t))
            if attr == "succession":
                return Val(LS, iv_succession(v.t))
            raise OutOfSubset(f"Intervention.{attr}")
    reg.add_model(lambda v: v.ty == TIv, IvModel())

    def ctor(eng, st, node):
        """ASSUMED: Intervention(control, strategy, succession) keeps the succession and the strategy, stores for every step the same
        overrides in a canonical order (sorted by items), and is successful iff no step is empty"""
        args = [eng.ev(x, st) for x in node.args]
        if len(args) != 3 or node.keywords:
            raise OutOfSubset("Intervention(<unexpected arguments>)")
        ctl, strat, succ = eng.coerce(args[0], LLS, st), eng.coerce(args[1], STRAT, st), eng.coerce(args[2], LS, st)
        iv = TIv.fresh("intervention")
        c2 = iv_control(iv.t)
        st.assume(z3.And(iv_succession(iv.t) == succ.t, iv_strategy(iv.t) == strat.t, LLS.len(c2) == LLS.len(ctl.t)))
        st.assume(z3.ForAll([a_], z3.Implies(z3.And(0 <= a_, a_ < LLS.len(ctl.t)), z3.And(
            LS.len(LLS.at(c2)[a_]) == LS.len(LLS.at(ctl.t)[a_]),
            z3.ForAll([m_], z3.Implies(z3.And(0 <= m_, m_ < LS.len(LLS.at(c2)[a_])), z3.Exists([m2_], z3.And(
                0 <= m2_, m2_ < LS.len(LLS.at(ctl.t)[a_]), LS.at(LLS.at(ctl.t)[a_])[m2_] == LS.at(LLS.at(c2)[a_])[m_]))))))))
        st.assume(iv_successful(iv.t) == z3.ForAll([a_], z3.Implies(z3.And(0 <= a_, a_ < LLS.len(ctl.t)), LS.len(LLS.at(ctl.t)[a_]) > 0)))
        return iv
    reg.global_calls["Intervention"] = ctor
    reg.extra_trusted.append({"biobalm.control.Intervention(control, strategy, succession)":
                              "keeps succession and strategy, stores each step's overrides in canonical order (a permutation), successful iff no step is empty"})

    ALLF = ["K", "space", "expanded", "skipped", "parent", "cand", "seeds", "sets", "ppn", "pbn", "pnfvs", "edge", "motifs", "motif0", "succsig", "depth", "index"]

    def succ_wf(v, l):
        return z3.And(LS.len(l) >= 0, z3.ForAll([k_], z3.Implies(z3.And(0 <= k_, k_ < LS.len(l)), z3.And(
            T.wf_space(LS.at(l)[k_]), T.dom_within(LS.at(l)[k_], S.net(v))))))

    reg.add(Contract(
        "biobalm.control.successions_to_target", trusted=True,
        params=[("succession_diagram", SD), ("target", TSpace), ("expand_diagram", TBool), ("skip_feedforward_successions", TBool)],
        defaults={"expand_diagram": True, "skip_feedforward_successions": False}, result_type=LLS, properties=("C06", "C07"),
        requires=[lambda c: S.inv_all(c.succession_diagram)],
        modifies={"succession_diagram": ALLF},
        ensures=[("lists_of_stable_motifs", lambda c: z3.And(LLS.len(c.result) >= 0, z3.ForAll([a_], z3.Implies(
            z3.And(0 <= a_, a_ < LLS.len(c.result)), succ_wf(c.succession_diagram, LLS.at(c.result)[a_]))))),
                 ("diagram_only_extended", lambda c: z3.And(S.ext(c.succession_diagram, c.old.succession_diagram), S.inv_all(c.succession_diagram)))],
        may_raise={"RuntimeError": {"modifies": {"succession_diagram": ALLF}}},
        note="ASSUMED: expands towards the target (expand_to_target, verified) and enumerates, over networkx simple paths and itertools.product, "
             "the sequences of stable motifs along root-to-target paths; every element is a well-formed space over the network's variables"))

    def ns(c, iv):
        return types.SimpleNamespace(bn=c.old.succession_diagram.sym if c.old is not None else c.succession_diagram.sym,
                                     succession=iv_succession(iv), strategy=c.strategy,
                                     max_drivers_per_succession_node=c.max_drivers_per_succession_node, forbidden_drivers=c.forbidden_drivers)

    def iv_ok(c, iv):
        n = ns(c, iv)
        return z3.And(LLS.len(iv_control(iv)) == LS.len(iv_succession(iv)), iv_strategy(iv) == c.strategy,
                      z3.ForAll([k_], z3.Implies(z3.And(0 <= k_, k_ < LS.len(iv_succession(iv))), step_sound(n, k_, LLS.at(iv_control(iv))[k_]))),
                      z3.Implies(c.successful_only, iv_successful(iv)))

    def all_ok(c, lst, upto=None):
        n = LIv.len(lst) if upto is None else upto
        return z3.And(LIv.len(lst) >= 0, z3.ForAll([a_], z3.Implies(z3.And(0 <= a_, a_ < n), iv_ok(c, LIv.at(lst)[a_]))))

    OptSN_ = OptSN
    reg.add(Contract(
        "biobalm.control.succession_control",
        params=[("succession_diagram", SD), ("target", TSpace), ("strategy", STRAT), ("max_drivers_per_succession_node", OptInt),
                ("forbidden_drivers", OptSN_), ("successful_only", TBool), ("skip_feedforward_successions", TBool)],
        defaults={"strategy": "internal", "max_drivers_per_succession_node": None, "forbidden_drivers": None, "successful_only": True,
                  "skip_feedforward_successions": False},
        result_type=LIv, properties=("C06", "C07"),
        requires=[lambda c: S.inv_all(c.succession_diagram), lambda c: z3.Or(c.strategy == 0, c.strategy == 1)],
        modifies={"succession_diagram": ALLF},
        ensures=[("every_step_of_every_reported_intervention_is_sound_and_within_the_constraints", lambda c: all_ok(c, c.result)),
                 ("diagram_only_extended", lambda c: z3.And(S.ext(c.succession_diagram, c.old.succession_diagram), S.inv_all(c.succession_diagram)))],
        raises={"RuntimeError": []}, may_raise={"RuntimeError": {"modifies": {"succession_diagram": ALLF}}},
        axioms=_EXPORT["AX_ACC"],
        local_types={"interventions": LIv, "successions": LLS},
        loops={0: LoopContract("for succession in successions", lambda c: [
            ("reported_so_far_are_sound", all_ok(c, c.interventions)),
            ("diagram_untouched_by_the_loop", z3.And(c.succession_diagram.sym == c.old.succession_diagram.sym, S.net(c.succession_diagram) == S.net(c.old.succession_diagram)))])},
        note="the diagram's symbolic graph (used for the LDOI computations) is not changed by the expansion",
    ))
