"""Contracts for biobalm/control.py (C06: every reported override really forces the motif; C07 partially). Sidecar."""
import z3
from pyvc.vtypes import *
from pyvc.contract import Contract, LoopContract
from pyvc import theory as T
from pyvc import sdmodel as M
from pyvc.itermodel import TEnum, SN
from pyvc.externals_aeon import TGraph, net_of, setcard

LS = M.LS
kn = z3.Const("k", Name)
k_ = z3.Int("k!d")
OptSpace, OptInt, OptSN = TOpt(TSpace), TOpt(TInt), TOpt(SN)
STRAT = TEnum(["internal", "all"])
LLS = TList(LS)


def install(reg):
    N = lambda c: net_of(c.bn)
    AF = lambda c: z3.If(OptSpace.is_none(c.assume_fixed), z3.K(Name, z3.IntVal(-1)), OptSpace.val(c.assume_fixed))
    FB = lambda c: z3.If(OptSN.is_none(c.forbidden_drivers), z3.K(Name, z3.BoolVal(False)), OptSN.val(c.forbidden_drivers))

    def works(c, d):
        """the logical domain of influence of d (on top of what is already fixed) contains the whole motif"""
        P = T.Perc(N(c), T.union(d, AF(c)))
        return z3.ForAll([kn], z3.Implies(c.target_trap_space[kn] >= 0, P[kn] == c.target_trap_space[kn]))

    def inner(c):
        kq = z3.Const("ck!", Name)
        return z3.Lambda([kq], z3.If(z3.And(c.target_trap_space[kq] >= 0, z3.Not(AF(c)[kq] >= 0)), c.target_trap_space[kq], -1))

    def allowed(c, d):
        """only allowed variables, at most `bound` of them"""
        bound = z3.If(OptInt.is_none(c.max_drivers_per_succession_node), T.card(inner(c)), OptInt.val(c.max_drivers_per_succession_node))
        dom = z3.Lambda([kn], d[kn] >= 0)
        pool_ok = z3.ForAll([kn], z3.Implies(d[kn] >= 0, z3.And(
            z3.Not(FB(c)[kn]),
            z3.If(c.strategy == 0, z3.And(c.target_trap_space[kn] >= 0, z3.Not(AF(c)[kn] >= 0), d[kn] == c.target_trap_space[kn]), T.isvar(N(c), kn)))))
        return z3.And(pool_ok, setcard(dom) <= bound, T.wf_space(d))

    def sound(c, lst, upto=None):
        n = LS.len(lst) if upto is None else upto
        return z3.ForAll([k_], z3.Implies(z3.And(0 <= k_, k_ < n), z3.And(works(c, LS.at(lst)[k_]), allowed(c, LS.at(lst)[k_]))))

    def inv(c):
        return [("drivers_sound", z3.And(LS.len(c.drivers) >= 0, sound(c, c.drivers))),
                ("pool", z3.ForAll([kn], z3.Implies(c.driver_pool[kn], z3.And(
                    z3.Not(FB(c)[kn]),
                    z3.If(c.strategy == 0, z3.And(c.target_trap_space[kn] >= 0, z3.Not(AF(c)[kn] >= 0)), T.isvar(N(c), kn))))))]

    reg.add(Contract(
        "biobalm.control.find_drivers",
        params=[("bn", TGraph), ("target_trap_space", TSpace), ("strategy", STRAT), ("assume_fixed", OptSpace),
                ("max_drivers_per_succession_node", OptInt), ("forbidden_drivers", OptSN)],
        defaults={"strategy": "internal", "assume_fixed": None, "max_drivers_per_succession_node": None, "forbidden_drivers": None},
        result_type=LS, properties=("C06", "C07", "C19"),
        requires=[lambda c: T.dom_within(c.target_trap_space, N(c)), lambda c: T.dom_within(AF(c), N(c)), lambda c: T.wf_space(AF(c))],
        raises={"ValueError": [("only_for_unknown_strategy", lambda c: z3.And(c.strategy != 0, c.strategy != 1))]},
        ensures=[("every_driver_forces_the_motif_and_respects_the_constraints", lambda c: sound(c, c.result))],
        local_types={"drivers": LS, "driver_pool": SN, "target_trap_space_inner": TSpace, "driver_dict": TSpace, "ldoi": TSpace,
                     },
        loops={0: LoopContract("for driver_set_size in range(max_drivers_per_succession_node + 1)", inv),
               1: LoopContract("for driver_set in combinations(driver_pool, driver_set_size)", inv),
               2: LoopContract("for vals in product([0, 1], repeat=driver_set_size)", inv)},
        note="soundness and constraint-respect of every reported override (C06, and the 'never a forbidden variable or an oversized set' clause of C07); "
             "completeness / minimality (C07) is decided by the bounded stand-in",
    ))
