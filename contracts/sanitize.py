"""Contract for biobalm.petri_net_translation.sanitize_network_names (C17, C13). Sidecar; no repository code.

Names are values of the sort Name; what the two regular expressions and the string prefixing do is ASSUMED (AX_RE, listed as trusted):
`re.match("^[a-zA-Z0-9_]+$", n)` decides IsSane(n); `re.sub("[^a-zA-Z0-9_]", "_", n)` of a non-empty name is sane; "_" + n is sane iff n is, and
one character longer. BooleanNetwork.set_variable_name raises exactly when another variable already has that name and otherwise renames that
one variable (update functions are kept: AEON renames inside them)."""
import z3
from pyvc.vtypes import *
from pyvc.contract import Contract, LoopContract
from pyvc.registry import ObjModel
from pyvc import theory as T
from pyvc import engine as ENG
from pyvc.externals_aeon import TNetObj, bn_net_of
from . import petri_build as PB
from . import percolate_net as PN

IsSane = z3.Function("name_is_sane", Name, B)
Sanitized = z3.Function("re_sub_invalid_chars", Name, Name)
Prepend = z3.Function("underscore_plus", Name, Name)
NameLen = z3.Function("name_length", Name, I)
MaxLen = z3.Function("bn_longest_name", TNetObj.sort(), I)
SetName = z3.Function("bn_set_variable_name", TNetObj.sort(), PB.TBnVar.sort(), Name, TNetObj.sort())
LBV = PB.LBV
SANE_RE, BAD_CHARS = "^[a-zA-Z0-9_]+$", "[^a-zA-Z0-9_]"

_n, _nt, _id, _id2 = z3.Const("n!sz", Name), z3.Const("nt!sz", TNetObj.sort()), z3.Const("id!sz", PB.TBnVar.sort()), z3.Const("id2!sz", PB.TBnVar.sort())
_a = z3.Int("a!sz")


def clash(nt, var, new):
    """another variable of nt is already called `new`"""
    L = PB.BnVarList(nt)
    return z3.Exists([_a], z3.And(0 <= _a, _a < LBV.len(L), LBV.at(L)[_a] != var, PB.BnName(nt, LBV.at(L)[_a]) == new))


AX_RE = [
    z3.ForAll([_n], z3.And(IsSane(Sanitized(_n)), NameLen(Sanitized(_n)) >= 1), patterns=[Sanitized(_n)]),
    z3.ForAll([_n], z3.And(IsSane(Prepend(_n)) == IsSane(_n), NameLen(Prepend(_n)) == NameLen(_n) + 1), patterns=[Prepend(_n)]),
    z3.ForAll([_n], NameLen(_n) >= 0, patterns=[NameLen(_n)]),
    # the longest name bounds every name of the network
    z3.ForAll([_nt, _a], z3.Implies(z3.And(0 <= _a, _a < LBV.len(PB.BnVarList(_nt))), NameLen(PB.BnName(_nt, LBV.at(PB.BnVarList(_nt))[_a])) <= MaxLen(_nt)),
              patterns=[PB.BnName(_nt, LBV.at(PB.BnVarList(_nt))[_a])]),
    # renaming one variable (only defined when the name is free)
    z3.ForAll([_nt, _id, _n, _id2], z3.Implies(z3.Not(clash(_nt, _id, _n)),
                                              PB.BnName(SetName(_nt, _id, _n), _id2) == z3.If(_id2 == _id, _n, PB.BnName(_nt, _id2))),
              patterns=[PB.BnName(SetName(_nt, _id, _n), _id2)]),
    z3.ForAll([_nt, _id, _n], PB.BnVarList(SetName(_nt, _id, _n)) == PB.BnVarList(_nt), patterns=[SetName(_nt, _id, _n)]),
    z3.ForAll([_nt, _id, _n, _id2], PN.GetFn(SetName(_nt, _id, _n), _id2) == PN.GetFn(_nt, _id2), patterns=[PN.GetFn(SetName(_nt, _id, _n), _id2)]),
]
TRUSTED = {
    "re / str (sanitize_network_names)": "re.match(\"^[a-zA-Z0-9_]+$\", n) decides whether n is sane; re.sub(\"[^a-zA-Z0-9_]\", \"_\", n) is sane (names are not "
                                         "empty); \"_\" + n is sane iff n is and one character longer (AX_RE)",
    "aeon.BooleanNetwork.set_variable_name": "raises exactly when another variable has that name; otherwise renames that variable only, keeping variables and "
                                             "update functions (AX_RE)",
}


def install(reg):
    reg.extra_trusted.append(TRUSTED)
    prev = [(p, m) for p, m in reg.models]

    def base_model(v):
        for p, m in prev:
            if p(v):
                return m
        return None

    class NetRename(ObjModel):
        def method(self, eng, st, v, meth, args, kw, node, recv_expr=None):
            if meth == "set_variable_name" and len(args) == 2 and args[0].ty == PB.TBnVar and args[1].ty == TName:
                cl = clash(v.t, args[0].t, args[1].t)
                fs = st.clone()
                fs.assume(cl)
                eng.fork_raise(fs, "Exception")
                st.assume(z3.Not(cl))
                eng.assign(recv_expr, Val(TNetObj, SetName(v.t, args[0].t, args[1].t)), st)
                return NONE
            return base_model(v).method(eng, st, v, meth, args, kw, node, recv_expr)
    reg.models = [(lambda v: v.ty == TNetObj, NetRename())] + reg.models

    def _lit(eng, st, a):
        v = eng.ev(a, st)
        return v.s if isinstance(v, ENG._StrLit) else None

    def re_match(eng, st, node):
        if len(node.args) != 2 or _lit(eng, st, node.args[0]) != SANE_RE:
            raise OutOfSubset("re.match with another pattern")
        n = eng.ev(node.args[1], st)
        if n.ty != TName:
            raise OutOfSubset("re.match on a non-name")
        return vbool(IsSane(n.t))
    reg.module_calls[("re", "match")] = re_match

    def re_sub(eng, st, node):
        if len(node.args) != 3 or _lit(eng, st, node.args[0]) != BAD_CHARS or _lit(eng, st, node.args[1]) != "_":
            raise OutOfSubset("re.sub with another pattern / replacement")
        n = eng.ev(node.args[2], st)
        if n.ty != TName:
            raise OutOfSubset("re.sub on a non-name")
        return Val(TName, Sanitized(n.t))
    reg.module_calls[("re", "sub")] = re_sub

    def binop(eng, st, op, a, b, node):
        import ast
        if isinstance(op, ast.Add) and isinstance(a, ENG._StrLit) and a.s == "_" and b.ty == TName:
            return Val(TName, Prepend(b.t))
        return None
    reg.add_hook("binop", binop)

    def L(c):
        return PB.BnVarList(c.old.network if c.old is not None else c.network)

    def orig(c):
        return c.old.network if c.old is not None else c.network

    def cur(c):
        return c.st.env["network"].t

    def frame(c, nt):
        """same variables and update functions as the argument; names that were sane are kept"""
        o = orig(c)
        return z3.And(PB.BnVarList(nt) == PB.BnVarList(o), z3.ForAll([_id], PN.GetFn(nt, _id) == PN.GetFn(o, _id)),
                      z3.ForAll([_a], z3.Implies(z3.And(0 <= _a, _a < LBV.len(L(c)), IsSane(PB.BnName(o, LBV.at(L(c))[_a]))),
                                                 PB.BnName(nt, LBV.at(L(c))[_a]) == PB.BnName(o, LBV.at(L(c))[_a]))))

    def inv0(c):
        nt, o = cur(c), orig(c)
        return [("coll", c.coll == L(c)), ("index", c.i >= 0), ("frame", frame(c, nt)),
                ("nothing_renamed_when_only_checking", z3.Implies(c.check_only, nt == o)),
                ("visited_names_sane", z3.ForAll([_a], z3.Implies(z3.And(0 <= _a, _a < c.i), IsSane(PB.BnName(nt, LBV.at(L(c))[_a]))))),
                ("unvisited_names_untouched", z3.ForAll([_a], z3.Implies(z3.And(c.i <= _a, _a < LBV.len(L(c))),
                                                                         PB.BnName(nt, LBV.at(L(c))[_a]) == PB.BnName(o, LBV.at(L(c))[_a]))))]

    def inv1(c):
        return [("candidate_is_sane", IsSane(c.new_name)), ("network_untouched_while_retrying", cur(c) == c.at_head(0, "network")),
                ("not_only_checking", z3.Not(c.check_only))]

    reg.add(Contract(
        "biobalm.petri_net_translation.sanitize_network_names",
        params=[("network", TNetObj), ("check_only", TBool)], defaults={"check_only": False}, result_type=TNetObj,
        properties=("C17", "C13"),
        may_raise={"RuntimeError": {"only_when": lambda c: c.check_only}},
        raises={"RuntimeError": [("only_when_checking_and_some_name_is_not_sane", lambda c: z3.And(c.check_only, z3.Exists([_a], z3.And(
            0 <= _a, _a < LBV.len(L(c)), z3.Not(IsSane(PB.BnName(orig(c), LBV.at(L(c))[_a])))))))]},
        ensures=[("every_name_is_sane", lambda c: z3.ForAll([_a], z3.Implies(z3.And(0 <= _a, _a < LBV.len(L(c))), IsSane(PB.BnName(c.result, LBV.at(L(c))[_a]))))),
                 ("same_variables_and_functions_sane_names_kept", lambda c: frame(c, c.result)),
                 ("checking_changes_nothing", lambda c: z3.Implies(c.check_only, c.result == c.network))],
        axioms=AX_RE + PB.AX_AEON_NET, local_types={"name": TName, "new_name": TName},
        loops={0: LoopContract("for var in network.variables()", inv0),
               1: LoopContract("while True", inv1, variant=lambda c: [MaxLen(cur(c)) + 1 - NameLen(c.new_name)])},
        note="the retry loop terminates: a clash needs an existing name of that length, and every retry makes the candidate longer"))
