# ten sources -> 1024 fixed points in unexpanded root with default config
from biobalm import SuccessionDiagram
txt = "\n".join(f"x{i}, x{i}" for i in range(10))
sd = SuccessionDiagram.from_rules(txt)
print("unexpanded root candidates:", len(sd.node_attractor_candidates(0, compute=True)))
print("unexpanded root seeds:", len(sd.node_attractor_seeds(0, compute=True)))
# non-source version: 10 independent bistable switches x_i = x_i | y_i, y_i = x_i & y_i ... 
txt = "\n".join(f"x{i}, x{i} & y{i}\ny{i}, x{i} | y{i}" for i in range(7))
sd = SuccessionDiagram.from_rules(txt)
print("switches unexpanded root candidates:", len(sd.node_attractor_candidates(0, compute=True)))
