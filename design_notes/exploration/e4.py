from biobalm import SuccessionDiagram
txt = """
a, a | b
b, a & b
c, !c & a | c & !a
"""
txt = """
a, b
b, a
c, c & a
"""
sd = SuccessionDiagram.from_rules(txt)
print("root seeds (unexpanded):", sd.node_attractor_seeds(0, compute=True))
print("skip_remaining:", sd.skip_remaining())
for i in sd.node_ids():
    print(i, sd.node_data(i)["space"], "exp", sd.node_data(i)["expanded"], "skipped", sd.node_data(i)["skipped"], "seeds", sd.node_attractor_seeds(i, compute=True))
print("---- skip_to_minimal")
sd = SuccessionDiagram.from_rules(txt)
print("root seeds (unexpanded):", sd.node_attractor_seeds(0, compute=True))
print(sd.skip_to_minimal(0))
for i in sd.node_ids():
    print(i, sd.node_data(i)["space"], "seeds", sd.node_attractor_seeds(i, compute=True))
print("---- expand_minimal_spaces skip_ignored")
sd = SuccessionDiagram.from_rules(txt)
sd.expand_bfs(bfs_level_limit=0)
for i in sd.node_ids():
    print(i, sd.node_data(i)["space"], sd.node_data(i)["expanded"], "seeds", sd.node_attractor_seeds(i, compute=True))
print(sd.expand_minimal_spaces(skip_ignored=True))
tot = 0
for i in sd.node_ids():
    s = sd.node_attractor_seeds(i, compute=True); tot += len(s)
    print(i, sd.node_data(i)["space"], sd.node_data(i)["expanded"], sd.node_data(i)["skipped"], "seeds", s)
print("total", tot)
