import sys, faulthandler, signal
faulthandler.register(signal.SIGALRM, all_threads=False, chain=False)
from biobalm import SuccessionDiagram
txt = 'a, false\nb, b\nc, (!d & !a & !c) | (!d & !a & c) | (d & !a & !c) | (d & a & !c) | (d & a & c)\nd, (!a & !c & !b) | (!a & c & b) | (a & !c & !b) | (a & !c & b) | (a & c & !b) | (a & c & b)'
cfg = SuccessionDiagram.default_config()
cfg.update({'attractor_candidates_limit': 3, 'retained_set_optimization_threshold': 1, 'minimum_simulation_budget': 1000})
cfg["debug"]=True
sd = SuccessionDiagram.from_rules(txt, config=cfg)
signal.alarm(8)
c = sd.node_attractor_candidates(0, compute=True, greedy_asp_minification=True, simulation_minification=False)
print("cands", c)
print(sd.node_attractor_seeds(0, compute=True))
