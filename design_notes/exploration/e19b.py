
import sys, itertools, signal
import os; sys.path.insert(0, os.path.dirname(os.path.abspath(__file__)))
from oracle import *
from biobalm import SuccessionDiagram
from collections import Counter
class TO(Exception): pass
def h(*a): raise TO()
signal.signal(signal.SIGALRM,h)
core = "A, (!A & !B) | C\nB, (!A & !B) | C\nC, A & B\n"
variants = {
 "core+latch": core + "p, p | t\nt, !t & !p\n",
 "core+bistable": core + "p, q\nq, p\n",
 "core+src": core + "s, s\nD, s & A\n",
 "core+coupled": core + "p, p | (t & A)\nt, !t & !p\n",
 "two cores": core + "D, (!D & !E) | F\nE, (!D & !E) | F\nF, D & E\n",
 "core gated": "A, ((!A & !B) | C) & g\nB, ((!A & !B) | C) & g\nC, A & B\ng, g | h\nh, !h & !g\n",
}
def key(c, names): return tuple(c[v] for v in names)
def run(txt, strat, net, atts):
    sd = SuccessionDiagram.from_rules(txt)
    if strat=="build": sd.build()
    else: {"bfs":sd.expand_bfs,"dfs":sd.expand_dfs,"block":sd.expand_block,"block_nosrc":lambda: sd.expand_block(optimize_source_nodes=False),"scc":sd.expand_scc,"aseeds":sd.expand_attractor_seeds}[strat]()
    cnt=Counter(); bad=0
    for i in list(sd.expanded_ids()):
        for c in sd.node_attractor_seeds(i, compute=True):
            hit=[A for A in atts if key(c,net.names) in A]
            if not hit: bad+=1
            else: cnt[hit[0]]+=1
    return "OK" if (set(cnt)==set(atts) and all(v==1 for v in cnt.values()) and not bad) else f"WRONG found={sorted(cnt.values())} of {len(atts)} bad={bad}"
for name, txt in variants.items():
    net = Net(txt); atts = net.attractors()
    for strat in ["build","bfs","dfs","block","block_nosrc","scc","aseeds"]:
        signal.alarm(25)
        try: st = run(txt, strat, net, atts)
        except TO: st = "STALL(>25s)"
        except Exception as e: st = "EXC "+type(e).__name__+" "+str(e)[:80]
        finally: signal.alarm(0)
        print(f"{name:15s} {strat:12s} {st}", flush=True)
