import sys, signal
import os; sys.path.insert(0, os.path.dirname(os.path.abspath(__file__)))
from oracle import *
from biobalm import SuccessionDiagram
def key(c, names): return tuple(c[v] for v in names)
which = sys.argv[1]
if which=="D3":
    txt='a, a\nb, (!c & !b) | (c & !b) | (c & b)\nc, (!b & c) | (b & !c)\nd, (!c)'
    sd=SuccessionDiagram.from_rules(txt)
    print("cands", sd.node_attractor_candidates(0, compute=True), flush=True)
    signal.alarm(10)
    print(sd.node_attractor_seeds(0, compute=True))
if which=="D11":
    txt="a, !a\nb, (!b & !c) | (b & !c) | (!b & c)\nc, (!c & !b)\nd, (!d & !b & !c) | (!d & b & !c) | (d & b & !c)"
    net=Net(txt); atts=net.attractors()
    sd=SuccessionDiagram.from_rules(txt)
    print("nfvs", sd.node_percolated_nfvs(0, compute=True))
    s=sd.node_attractor_seeds(0, compute=True); print("seeds", s, "n attractors", len(atts), "seed in attractor:", [any(key(c,net.names) in A for A in atts) for c in s])
    print("attractor:", sorted(atts[0]))
if which=="D2":
    txt='a, (a & !b)\nb, (a)\nc, (!a & !d)\nd, (!a & !d & !b) | (!a & d & !b) | (!a & d & b) | (a & d & !b)'
    net=Net(txt); atts=net.attractors()
    cfg=SuccessionDiagram.default_config(); cfg["retained_set_optimization_threshold"]=0; cfg["debug"]=True
    sd=SuccessionDiagram.from_rules(txt, config=cfg)
    c=sd.node_attractor_candidates(0, compute=True, greedy_asp_minification=True, simulation_minification=False)
    print("cands", c); print("attractors", [sorted(A) for A in atts])
