import sys, itertools
from biobalm import SuccessionDiagram
core = """
A, (!A & !B) | C
B, (!A & !B) | C
C, A & B
"""
mods = "".join(f"p{i}, p{i} | t{i}\nt{i}, !t{i} & !p{i}\n" for i in range(1,4))
txt = core + mods
def in_maa(s):  # MAA = {000,100,010} on ABC with all modules on (p=1,t=0)
    return (s["A"],s["B"],s["C"]) in [(0,0,0),(1,0,0),(0,1,0)]
best=None
sd0 = SuccessionDiagram.from_rules(txt)
sd0.expand_bfs(bfs_level_limit=0)
kids = sorted(sd0.node_successors(0))
print("root children:", [(k, sd0.node_data(k)["space"]) for k in kids])
for m in kids:
    sd = SuccessionDiagram.from_rules(txt)
    sd.expand_bfs(bfs_level_limit=0)
    sd.node_successors(m, compute=True)
    sd.skip_remaining()
    found=0; rep=[]
    for i in sd.node_ids():
        seeds = sd.node_attractor_seeds(i, compute=True)
        for s in seeds:
            if in_maa(s): found+=1; rep.append(i)
    print("expanded child", m, sd.node_data(m)["space"], "-> MAA reported", found, "times by nodes", rep, "nodes", len(sd))
