import networkx as nx
from biobalm import SuccessionDiagram
txt = """
a, a | (b & c)
b, b | a
c, !c
d, d & a
"""
for mode in ["bfs","dfs","block"]:
    sd = SuccessionDiagram.from_rules(txt)
    {"bfs":sd.expand_bfs,"dfs":sd.expand_dfs,"block":sd.expand_block}[mode]()
    dag = sd.dag
    lp = {v: 0 for v in dag.nodes}
    for v in nx.topological_sort(dag):
        for w in dag.successors(v):
            lp[w] = max(lp[w], lp[v]+1)
    for v in dag.nodes:
        print(mode, v, sd.node_data(v)["space"], "depth", sd.node_data(v)["depth"], "longest", lp[v], list(dag.successors(v)))
    print("sd.depth()", sd.depth(), "true", max(lp.values()))
