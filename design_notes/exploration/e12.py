from biobalm import SuccessionDiagram
txt = """
a, a & b
b, a | b
c, c & d
d, c | d
"""
sd = SuccessionDiagram.from_rules(txt)
sd.build()
for i in sd.node_ids():
    d = sd.node_data(i)
    print(i, d["space"], "expanded", d["expanded"], "seeds", d["attractor_seeds"])
print(sd.summary())
print("expanded_attractor_seeds", sd.expanded_attractor_seeds())
