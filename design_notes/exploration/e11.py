import sys, random, itertools, signal, json
import os; sys.path.insert(0, os.path.dirname(os.path.abspath(__file__)))
from oracle import *
from biobalm import SuccessionDiagram
seed = int(sys.argv[1]); N = int(sys.argv[2])
rng = random.Random(seed)
def key(c, names): return tuple(c[v] for v in names)
found = 0
for it in range(N):
    n = rng.randint(3,6)
    txt = rand_net(rng, n, p_const=0.0, p_src=0.0)
    net = Net(txt); atts = net.attractors()
    cfg = SuccessionDiagram.default_config(); cfg["retained_set_optimization_threshold"] = 0
    sd = SuccessionDiagram.from_rules(txt, config=cfg)
    if rng.random()<0.5: sd.expand_bfs(bfs_level_limit=0)
    for i in sd.node_ids():
        sp = sd.node_data(i)["space"]
        kids = [sd.node_data(j)["space"] for j in sd.dag.successors(i)]
        exp = [A for A in atts if all(net.in_space(s, sp) for s in A) and not any(all(net.in_space(s,k) for s in A) for k in kids)]
        try: cands = sd.node_attractor_candidates(i, compute=True, greedy_asp_minification=True, simulation_minification=False)
        except RuntimeError: continue
        nf = sd.node_data(i)["percolated_nfvs"]
        for A in exp:
            if not any(key(c,net.names) in A for c in cands) and nf:
                print(json.dumps(dict(txt=txt, node=i, sp=sp, cands=cands, nfvs=nf, expanded=sd.node_data(i)["expanded"]))); found += 1; break
print("found", found)
