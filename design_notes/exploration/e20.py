import sys, faulthandler, signal
faulthandler.dump_traceback_later(20, exit=True)
from biobalm import SuccessionDiagram
core = "A, (!A & !B) | C\nB, (!A & !B) | C\nC, A & B\n"
txt = core + "p, p | t\nt, !t & !p\n"
sd = SuccessionDiagram.from_rules(txt)
print("expand_scc ->", sd.expand_scc(), flush=True)
for i in sd.node_ids(): print(i, sd.node_data(i)["space"], sd.node_data(i)["expanded"], sd.node_data(i)["attractor_seeds"], flush=True)
for i in sd.expanded_ids(): print(i, sd.node_attractor_seeds(i, compute=True), flush=True)
