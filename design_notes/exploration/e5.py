import pickle
from biobalm import SuccessionDiagram
from biobalm.trappist_core import trappist, compute_fixed_point_reduced_STG
txt = """
a, b
b, a
c, c & a
"""
sd = SuccessionDiagram.from_rules(txt)
print("bfs full:", sd.expand_bfs(), len(sd), "stubs", list(sd.stub_ids()))
print("bfs size_limit=len:", sd.expand_bfs(size_limit=len(sd)), "stubs", list(sd.stub_ids()))
print("dfs size_limit=2:", sd.expand_dfs(size_limit=2), "stubs", list(sd.stub_ids()))
print("min size_limit=2:", sd.expand_minimal_spaces(size_limit=2))
print("aseeds size_limit=2:", sd.expand_attractor_seeds(size_limit=2))
print("target size_limit=2:", sd.expand_to_target({"a":1}, size_limit=2))
print("block size_limit=2:", sd.expand_block(size_limit=2))
# is_subgraph on root-only diagrams
s1 = SuccessionDiagram.from_rules("A, true"); s2 = SuccessionDiagram.from_rules("A, false")
print("root spaces", s1.node_data(0)["space"], s2.node_data(0)["space"], "is_subgraph", s1.is_subgraph(s2), "iso", s1.is_isomorphic(s2))
# limit 0
print("trappist limit 0:", trappist(sd.petri_net, problem="min", solution_limit=0))
print("trappist limit 1:", trappist(sd.petri_net, problem="min", solution_limit=1))
print("fix limit 0:", compute_fixed_point_reduced_STG(sd.petri_net, solution_limit=0))
cfg = SuccessionDiagram.default_config(); cfg["max_motifs_per_node"] = 0
s3 = SuccessionDiagram.from_rules(txt, config=cfg)
try:
    print("expand with max_motifs 0:", s3.expand_bfs(), len(s3), [s3.node_data(i)["space"] for i in s3.node_ids()])
except RuntimeError as e: print("raised", e)
cfg = SuccessionDiagram.default_config(); cfg["max_motifs_per_node"] = 3
s3 = SuccessionDiagram.from_rules(txt, config=cfg)
try:
    print("expand with max_motifs 3 (root has exactly 3):", s3.expand_bfs(), len(s3))
except RuntimeError as e: print("raised", e)
# pickling with sets
sd = SuccessionDiagram.from_rules(txt); sd.build()
print(sd.expanded_attractor_sets())
try:
    sd2 = pickle.loads(pickle.dumps(sd)); print("pickle ok", sd2.summary()==sd.summary(), sd2.expanded_attractor_sets())
except Exception as e: print("pickle fail", type(e), e)
sd = SuccessionDiagram.from_rules(txt); sd.expand_bfs(); sd.node_percolated_network(1, compute=True); sd.node_percolated_petri_net(1, compute=True)
try:
    sd2 = pickle.loads(pickle.dumps(sd)); print("pickle with percolated network ok")
except Exception as e: print("pickle fail", type(e), e)
