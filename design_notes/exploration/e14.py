import sys, random, itertools, signal, json
import os; sys.path.insert(0, os.path.dirname(os.path.abspath(__file__)))
from oracle import *
from biobalm import SuccessionDiagram
from collections import Counter
class TO(Exception): pass
def h(*a): raise TO()
signal.signal(signal.SIGALRM, h)
seed = int(sys.argv[1]); N = int(sys.argv[2])
rng = random.Random(seed)
def key(c, names): return tuple(c[v] for v in names)
stats=Counter()
for it in range(N):
    n = rng.randint(2,6)
    txt = rand_net(rng, n, p_const=0.05, p_src=0.1)
    net = Net(txt); atts = net.attractors()
    traps = net.trap_spaces()
    mins = [t for t in traps if not any(u!=t and subspace(u,t) for u in traps)]
    has_maa = any(not any(all(net.in_space(s,m) for s in A) for m in mins) for A in atts)
    tag=None
    try:
        signal.alarm(40)
        # C03: strategies
        strat = rng.choice(["bfs","dfs","block","block_nomaa","block_nosrc","scc","scc_nomaa","min","aseeds","partial_skip","partial_min_skip","pre_then_min","pre_then_aseeds"])
        sd = SuccessionDiagram.from_rules(txt)
        ok=True
        if strat=="bfs": ok=sd.expand_bfs()
        elif strat=="dfs": ok=sd.expand_dfs()
        elif strat=="block": ok=sd.expand_block()
        elif strat=="block_nomaa": ok=sd.expand_block(find_motif_avoidant_attractors=False)
        elif strat=="block_nosrc": ok=sd.expand_block(optimize_source_nodes=False)
        elif strat=="scc": ok=sd.expand_scc()
        elif strat=="scc_nomaa": ok=sd.expand_scc(False)
        elif strat=="min": ok=sd.expand_minimal_spaces()
        elif strat=="aseeds": ok=sd.expand_attractor_seeds()
        elif strat=="partial_skip":
            sd.expand_bfs(size_limit=rng.randint(1,6)) if rng.random()<0.5 else sd.expand_dfs(dfs_stack_limit=rng.randint(0,2))
            sd.skip_remaining()
        elif strat=="partial_min_skip":
            sd.expand_bfs(bfs_level_limit=rng.randint(0,1))
            ok = sd.expand_minimal_spaces(skip_ignored=True)
        elif strat=="pre_then_min":
            sd.expand_dfs(dfs_stack_limit=rng.randint(0,2)); ok=sd.expand_minimal_spaces()
        elif strat=="pre_then_aseeds":
            sd.expand_bfs(size_limit=rng.randint(1,5)); ok=sd.expand_attractor_seeds()
        if ok:
            got = [sd.node_data(i)["space"] for i in sd.minimal_trap_spaces()]
            if sorted(map(lambda d: sorted(d.items()), got)) != sorted(map(lambda d: sorted(d.items()), mins)):
                tag=("C03", strat, len(got), len(mins))
        if tag is None and ok:
            # C01/C05 attractors over all nodes
            cnt=Counter(); bad=None
            ids = list(sd.node_ids()) if strat.startswith("partial") else list(sd.expanded_ids())
            for i in ids:
                sp=sd.node_data(i)["space"]
                for c in sd.node_attractor_seeds(i, compute=True):
                    hit=[A for A in atts if key(c,net.names) in A]
                    if not hit or not all(net.in_space(s,sp) for s in hit[0]): bad=("seed_not_in_attr_in_node", i, c)
                    else: cnt[hit[0]]+=1
            if bad: tag=("C01seed",strat)+bad
            elif set(cnt)!=set(atts): tag=("MISSING_ATTR", strat, len(atts), len(cnt), "maa", has_maa)
            elif any(v!=1 for v in cnt.values()) and (not strat.startswith("partial") or not has_maa): tag=("DUP_ATTR", strat, "maa", has_maa, sorted(cnt.values()))
        stats["ok" if tag is None else tag[0]]+=1
    except TO:
        tag=("STALL",strat); stats["STALL"]+=1
    except (AssertionError, ValueError, KeyError) as e:
        tag=("EXC",strat,type(e).__name__,str(e)[:100]); stats["EXC"]+=1
    finally:
        signal.alarm(0)
    if tag: print(json.dumps(dict(tag=[str(t) for t in tag], txt=txt)))
print(dict(stats))
