import sys, random, itertools, json
import os; sys.path.insert(0, os.path.dirname(os.path.abspath(__file__)))
from oracle import *
from biobalm import SuccessionDiagram
seed = int(sys.argv[1]); N = int(sys.argv[2])
rng = random.Random(seed)
def key(c, names): return tuple(c[v] for v in names)
def rand_net_negself(rng, n):
    names = [chr(ord('a')+i) for i in range(n)]
    lines=[]
    for v in names:
        others = [x for x in names if x!=v]
        k = rng.randint(0, min(2,len(others)))
        ins = [v]+rng.sample(others,k)
        # random table, then force negative dependence on self somewhere: f(v=0,rest) >= f(v=1,rest) and strict somewhere
        tab={}
        for bits in itertools.product([0,1], repeat=k):
            hi = rng.random()<0.6; lo = rng.random()<0.4
            a,b = (1,0) if rng.random()<0.7 else ((1,1) if rng.random()<0.5 else (0,0))
            tab[(0,)+bits]=a; tab[(1,)+bits]=b
        rows=[bits for bits,val in tab.items() if val]
        if not rows: lines.append(f"{v}, !{v}"); continue
        if len(rows)==2**(k+1): lines.append(f"{v}, !{v}"); continue
        terms = ["(" + " & ".join((x if b else "!"+x) for x,b in zip(ins,bits)) + ")" for bits in rows]
        lines.append(f"{v}, " + " | ".join(terms))
    return "\n".join(lines)
found=0; tried=0
for it in range(N):
    n = rng.randint(2,4)
    txt = rand_net_negself(rng, n)
    net = Net(txt); atts = net.attractors()
    sd = SuccessionDiagram.from_rules(txt)
    if len(sd.node_data(0)["space"])>0: continue
    nf = sd.node_percolated_nfvs(0, compute=True)
    if len(nf)!=net.n: continue
    tried+=1
    for mode in ["none","bfs"]:
        sd = SuccessionDiagram.from_rules(txt)
        if mode=="bfs": sd.expand_bfs()
        tot=[]
        for i in sd.node_ids():
            tot += sd.node_attractor_seeds(i, compute=True)
        got=set()
        for c in tot:
            for A in atts:
                if key(c,net.names) in A: got.add(A)
        if mode=="bfs" and (len(tot)!=len(atts) or len(got)!=len(atts)):
            print(json.dumps(dict(txt=txt, mode=mode, natts=len(atts), seeds=tot))); found+=1
        if mode=="none" and (len(tot)!=len(atts) or len(got)!=len(atts)):
            print(json.dumps(dict(txt=txt, mode=mode, natts=len(atts), seeds=tot))); found+=1
print("tried", tried, "found", found)
