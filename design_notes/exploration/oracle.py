"""Brute-force reference semantics for tiny Boolean networks (design-time experiments only)."""
import itertools, random
from biodivine_aeon import BooleanNetwork

def rand_net(rng, n, max_in=3, p_const=0.1, p_src=0.1):
    names = [chr(ord('a')+i) for i in range(n)]
    lines = []
    for v in names:
        r = rng.random()
        if r < p_const:
            lines.append(f"{v}, {'true' if rng.random()<0.5 else 'false'}"); continue
        if r < p_const + p_src:
            lines.append(f"{v}, {v}"); continue
        k = rng.randint(1, min(max_in, n))
        ins = rng.sample(names, k)
        # random truth table as DNF
        rows = [bits for bits in itertools.product([0,1], repeat=k) if rng.random()<0.5]
        if not rows: lines.append(f"{v}, false"); continue
        if len(rows)==2**k: lines.append(f"{v}, true"); continue
        terms = ["(" + " & ".join((x if b else "!"+x) for x,b in zip(ins,bits)) + ")" for bits in rows]
        lines.append(f"{v}, " + " | ".join(terms))
    return "\n".join(lines)

class Net:
    def __init__(self, bnet):
        self.bn = BooleanNetwork.from_bnet(bnet)
        self.bn = self.bn.infer_valid_graph()
        self.names = [self.bn.get_variable_name(v) for v in self.bn.variables()]
        self.n = len(self.names)
        from biodivine_aeon import AsynchronousGraph
        g = AsynchronousGraph(self.bn)
        self.fn = {}
        for v in self.names:
            bdd = g.mk_update_function(v)
            self.fn[v] = bdd
        self.states = list(itertools.product([0,1], repeat=self.n))
        self.tab = {}
        for s in self.states:
            d = dict(zip(self.names, s))
            self.tab[s] = tuple(1 if (self.fn[v].is_true() or (not self.fn[v].is_false() and self.fn[v].r_restrict({k: bool(x) for k,x in d.items() if k in [str(q) for q in []] or True}).is_true())) else 0 for v in self.names)
    def succ(self, s):
        out = []
        for i in range(self.n):
            if self.tab[s][i] != s[i]:
                t = list(s); t[i] = self.tab[s][i]; out.append(tuple(t))
        return out
    def in_space(self, s, sp):
        return all(s[self.names.index(k)] == v for k,v in sp.items())
    def spaces(self):
        for vals in itertools.product([None,0,1], repeat=self.n):
            yield {k:v for k,v in zip(self.names, vals) if v is not None}
    def is_trap(self, sp):
        for s in self.states:
            if self.in_space(s, sp):
                for t in self.succ(s):
                    if not self.in_space(t, sp): return False
        return True
    def trap_spaces(self):
        return [sp for sp in self.spaces() if self.is_trap(sp)]
    def attractors(self):
        # terminal SCCs via reach sets
        reach = {}
        for s in self.states:
            seen = {s}; st=[s]
            while st:
                x = st.pop()
                for y in self.succ(x):
                    if y not in seen: seen.add(y); st.append(y)
            reach[s] = frozenset(seen)
        atts = set()
        for s in self.states:
            if all(s in reach[t] for t in reach[s]):
                atts.add(reach[s])
        return list(atts)
def subspace(x, y): return all(k in x and x[k]==v for k,v in y.items())
