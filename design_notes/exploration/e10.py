import sys, random, itertools, signal, json
import os; sys.path.insert(0, os.path.dirname(os.path.abspath(__file__)))
from oracle import *
from biobalm import SuccessionDiagram
class TO(Exception): pass
def h(*a): raise TO()
signal.signal(signal.SIGALRM, h)
seed = int(sys.argv[1]); N = int(sys.argv[2]); default_only = sys.argv[3]=="default"
rng = random.Random(seed)
from collections import Counter
stats = Counter()
def key(c, names): return tuple(c[v] for v in names)
for it in range(N):
    n = rng.randint(2,6)
    txt = rand_net(rng, n, p_const=0.05, p_src=0.1)
    net = Net(txt)
    atts = net.attractors()
    cfg = SuccessionDiagram.default_config()
    if not default_only:
        cfg["retained_set_optimization_threshold"] = rng.choice([0,1,2,3,1000])
        cfg["attractor_candidates_limit"] = rng.choice([1,2,3,5,100000])
        cfg["minimum_simulation_budget"] = rng.choice([0,1,1000])
    greedy = rng.random()<0.6; sim = rng.random()<0.6
    sd = SuccessionDiagram.from_rules(txt, config=cfg)
    mode = rng.choice(["none","bfs","bfs1","dfs1","block","block_nosrc","scc","min","aseeds"])
    tag = None
    try:
        signal.alarm(30)
        if mode=="bfs": sd.expand_bfs()
        if mode=="bfs1": sd.expand_bfs(bfs_level_limit=rng.randint(0,1))
        if mode=="dfs1": sd.expand_dfs(dfs_stack_limit=rng.randint(1,2))
        if mode=="block": sd.expand_block()
        if mode=="block_nosrc": sd.expand_block(optimize_source_nodes=False)
        if mode=="scc": sd.expand_scc()
        if mode=="min": sd.expand_minimal_spaces()
        if mode=="aseeds": sd.expand_attractor_seeds()
        allseeds = []
        for i in sd.node_ids():
            sp = sd.node_data(i)["space"]
            kids = [sd.node_data(j)["space"] for j in sd.dag.successors(i)]
            exp = [A for A in atts if all(net.in_space(s, sp) for s in A) and not any(all(net.in_space(s,k) for s in A) for k in kids)]
            cached = sd.node_data(i)["attractor_seeds"]
            if cached is not None:
                got = [A for A in atts if any(key(c,net.names) in A for c in cached)]
                if len(cached)!=len(exp) or set(got)!=set(exp):
                    tag = ("PRESET_SEEDS_WRONG", i, sp, cached, len(exp)); break
            try:
                cands = sd.node_attractor_candidates(i, compute=True, greedy_asp_minification=greedy, simulation_minification=sim)
            except RuntimeError as e:
                stats["limit_err"]+=1; continue
            for A in exp:
                if not any(key(c,net.names) in A for c in cands):
                    tag = ("MISS", i, sp, cands, "nfvs", sd.node_data(i)["percolated_nfvs"]); break
            if tag: break
            try:
                seeds = sd.node_attractor_seeds(i, compute=True)
            except RuntimeError: continue
            got = [A for A in atts if any(key(c,net.names) in A for c in seeds)]
            if len(seeds)!=len(exp) or set(got)!=set(exp):
                tag = ("SEEDS_WRONG", i, sp, seeds, len(exp), "cands", cands); break
            if sd.node_data(i)["expanded"]: allseeds += seeds
        if tag is None and mode in ("bfs","block","block_nosrc","scc","aseeds"):
            got = Counter()
            for c in allseeds:
                for A in atts:
                    if key(c,net.names) in A: got[A]+=1
            if set(got)!=set(atts) or any(v!=1 for v in got.values()):
                tag = ("GLOBAL_C01", len(atts), dict((str(sorted(k)[0]),v) for k,v in got.items()))
        stats["ok" if tag is None else tag[0]]+=1
    except TO:
        tag = ("STALL",); stats["STALL"]+=1
    except AssertionError as e:
        tag = ("ASSERT", str(e)); stats["ASSERT"]+=1
    finally:
        signal.alarm(0)
    if tag: print(json.dumps(dict(tag=[str(t) for t in tag], txt=txt, thr=cfg["retained_set_optimization_threshold"], lim=cfg["attractor_candidates_limit"], bud=cfg["minimum_simulation_budget"], greedy=greedy, sim=sim, mode=mode)))
print(dict(stats))
