import sys, random, itertools, signal
import os; sys.path.insert(0, os.path.dirname(os.path.abspath(__file__)))
from oracle import *
from biobalm import SuccessionDiagram
class TO(Exception): pass
def h(*a): raise TO()
signal.signal(signal.SIGALRM, h)
seed = int(sys.argv[1]); N = int(sys.argv[2])
rng = random.Random(seed)
stats = dict(miss=0, stall=0, dup=0, ok=0, err=0)
for it in range(N):
    n = rng.randint(2,5)
    txt = rand_net(rng, n, p_const=0.05, p_src=0.05)
    net = Net(txt)
    atts = net.attractors()
    cfg = SuccessionDiagram.default_config()
    cfg["retained_set_optimization_threshold"] = rng.choice([0,1,2,1000])
    cfg["attractor_candidates_limit"] = rng.choice([2,3,5,100000])
    cfg["minimum_simulation_budget"] = rng.choice([0,1,1000])
    greedy = rng.random()<0.7; sim = rng.random()<0.5
    sd = SuccessionDiagram.from_rules(txt, config=cfg)
    try:
        signal.alarm(20)
        mode = rng.choice(["none","bfs","bfs1"])
        if mode=="bfs": sd.expand_bfs()
        if mode=="bfs1": sd.expand_bfs(bfs_level_limit=rng.randint(0,1))
        found = []
        for i in sd.node_ids():
            sp = sd.node_data(i)["space"]
            kids = [sd.node_data(j)["space"] for j in sd.dag.successors(i)]
            try:
                cands = sd.node_attractor_candidates(i, compute=True, greedy_asp_minification=greedy, simulation_minification=sim)
            except RuntimeError as e:
                continue
            # every attractor in sp not inside a child must contain a candidate
            for A in atts:
                if all(net.in_space(s, sp) for s in A) and not any(all(net.in_space(s,k) for s in A) for k in kids):
                    if not any(tuple(c[v] for v in net.names) in A for c in cands):
                        print("MISS", repr(txt), cfg["retained_set_optimization_threshold"], cfg["attractor_candidates_limit"], greedy, sim, mode, i, sp, cands); stats["miss"]+=1
            for c in cands:
                if not net.in_space(tuple(c[v] for v in net.names), sp): print("OUTSIDE", repr(txt))
            try:
                seeds = sd.node_attractor_seeds(i, compute=True)
            except RuntimeError: continue
            exp = [A for A in atts if all(net.in_space(s, sp) for s in A) and not any(all(net.in_space(s,k) for s in A) for k in kids)]
            got = [A for A in atts if any(tuple(c[v] for v in net.names) in A for c in seeds)]
            if len(seeds)!=len(exp) or set(got)!=set(exp):
                print("SEEDS WRONG", repr(txt), mode, i, sp, seeds, len(exp)); stats["dup"]+=1
        stats["ok"]+=1
    except TO:
        print("STALL", repr(txt), cfg, greedy, sim, mode); stats["stall"]+=1
    finally:
        signal.alarm(0)
print(stats)
