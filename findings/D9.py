# D9 (C20): build() computes seeds for unexpanded nodes, so summary() lists attractors several times.
import sys; sys.path.insert(0, "/verif/findings")
from common import *
bnet = """a, a&b
b, a|b
c, c&d
d, c|d"""
sd = SuccessionDiagram.from_rules(bnet)
sd.build()
names, atts = brute(bnet)
summ = sd.summary()
listed = [l for l in summ.splitlines() if l.startswith(".")]
maa = [l for l in summ.splitlines() if l.startswith("motif avoidance")]
print("attractors", len(atts), "listed in summary", len(listed), "distinct", len(set(listed)), "'motif avoidance' labels", len(maa))
sys.exit(1 if len(listed) != len(atts) or maa else 0)
