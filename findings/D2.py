# D2 (C08): truncated candidate list adopted when the two counts tie.
import sys; sys.path.insert(0, "/verif/findings")
from common import *
bnet = """a, a&!b
b, a
c, !a&!d
d, (!a&!d&!b)|(!a&d&!b)|(!a&d&b)|(a&d&!b)"""
cfg = SuccessionDiagram.default_config(); cfg["retained_set_optimization_threshold"] = 0
sd = SuccessionDiagram.from_rules(bnet, config=cfg)
names, atts = brute(bnet)
cands = [state_tuple(names, c) for c in sd.node_attractor_candidates(0, compute=True)]
owned = atts  # root is unexpanded: every attractor must be covered
missing = [sorted(a) for a in owned if not any(c in a for c in cands)]
print("candidates", cands, "attractors without a candidate", missing)
sys.exit(1 if missing else 0)
