# D12 (C05, KNOWN FINDING - not repaired): a motif-avoidant attractor lying in the intersection of
# overlapping skip nodes is excluded by every node that contains it and is reported by nobody.
import sys; sys.path.insert(0, "/verif/findings")
from common import *
core = "A,(!A&!B)|C\nB,(!A&!B)|C\nC,A&B"
latches = "\n".join(f"p{i}, p{i}|t{i}\nt{i}, !t{i}&!p{i}" for i in (1, 2, 3))
bnet = core + "\n" + latches
sd = SuccessionDiagram.from_rules(bnet)
sd.expand_bfs(bfs_level_limit=0)
sd.node_successors(2, compute=True)
sd.skip_remaining()
names, atts = brute(bnet)
seeds = []
for i in sd.node_ids():
    seeds += [state_tuple(names, s) for s in sd.node_attractor_seeds(i, compute=True)]
missing = [sorted(a) for a in atts if not any(s in a for s in seeds)]
print("attractors", len(atts), "seeds", len(seeds), "attractors reported by no node:", len(missing))
for m in missing: print("  lost attractor of size", len(m), "first state", dict(zip(names, m[0])))
sys.exit(1 if missing else 0)
