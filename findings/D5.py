# D5 (C20): a raised node depth is not propagated to the node's descendants.
import sys; sys.path.insert(0, "/verif/findings")
from common import *
import networkx as nx
bnet = """a, a | (b & c)
b, b | a
c, !c
d, d & a"""
bad = []
for mode in ["bfs", "dfs", "block"]:
    sd = SuccessionDiagram.from_rules(bnet)
    {"bfs": sd.expand_bfs, "dfs": sd.expand_dfs, "block": sd.expand_block}[mode]()
    lp = {v: 0 for v in sd.dag.nodes}
    for v in nx.topological_sort(sd.dag):
        for w in sd.dag.successors(v):
            lp[w] = max(lp[w], lp[v] + 1)
    wrong = {v: (sd.node_data(v)["depth"], lp[v]) for v in sd.dag.nodes if sd.node_data(v)["depth"] != lp[v]}
    print(mode, "nodes with depth != longest path (depth, longest):", wrong, "sd.depth()", sd.depth(), "true", max(lp.values()))
    if wrong or sd.depth() != max(lp.values()): bad.append(mode)
sys.exit(1 if bad else 0)
