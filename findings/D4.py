# D4 (C14/C05): attractor data cached while a node had no successors survives skipping.
import sys; sys.path.insert(0, "/verif/findings")
from common import *
bnet = """a, b
b, a
c, c&a"""
bad = []
for how in ["skip_remaining", "skip_to_minimal", "expand_minimal_spaces(skip_ignored)"]:
    sd = SuccessionDiagram.from_rules(bnet)
    if how == "expand_minimal_spaces(skip_ignored)":
        sd.node_successors(0, compute=True)
        for s in sd.node_successors(0):
            sd.node_attractor_seeds(s, compute=True); sd.node_attractor_candidates(s, compute=True)
        sd.expand_minimal_spaces(skip_ignored=True)
    else:
        sd.node_attractor_seeds(0, compute=True)
        if how == "skip_remaining": sd.skip_remaining()
        else: sd.skip_to_minimal(0)
    names, atts = brute(bnet)
    total = []
    for i in sd.node_ids():
        try: total += [state_tuple(names, s) for s in sd.node_attractor_seeds(i, compute=False)]
        except KeyError: total += [state_tuple(names, s) for s in sd.node_attractor_seeds(i, compute=True)]
    dup = len(total) - len(set(total))
    print(how, "seeds reported", len(total), "attractors", len(atts), "duplicates", dup)
    if dup or len(total) != len(atts): bad.append(how)
sys.exit(1 if bad else 0)
