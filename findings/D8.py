# D8 (C15/C09/C08): a limit of 0 yields one solution; callers that compare len == limit accept a truncated list.
import sys; sys.path.insert(0, "/verif/findings")
from common import *
from biobalm.trappist_core import trappist, compute_fixed_point_reduced_STG
from biobalm.petri_net_translation import network_to_petrinet
bnet = """a, b
b, a
c, c&a"""
bad = []
bn = BooleanNetwork.from_bnet(bnet)
r = trappist(bn, problem="min", solution_limit=0)
print("trappist(solution_limit=0) returned", len(r), "solutions")
if len(r) > 0: bad.append("trappist")
r = compute_fixed_point_reduced_STG(network_to_petrinet(bn), {}, solution_limit=0)
print("compute_fixed_point_reduced_STG(solution_limit=0) returned", len(r), "solutions")
if len(r) > 0: bad.append("reduced_STG")
cfg = SuccessionDiagram.default_config(); cfg["max_motifs_per_node"] = 0
sd = SuccessionDiagram.from_rules(bnet, config=cfg)
full = SuccessionDiagram.from_rules(bnet); full.expand_bfs()
try:
    r = sd.expand_bfs()
    print("max_motifs_per_node=0: expand_bfs returned", r, "with", len(sd), "nodes; full diagram has", len(full))
    if r and len(sd) != len(full): bad.append("max_motifs")
except RuntimeError as e:
    print("max_motifs_per_node=0: RuntimeError (limit error), diagram has", len(sd), "nodes, stubs", list(sd.stub_ids()))
names, atts = brute(bnet)
for greedy in [True, False]:
    cfg = SuccessionDiagram.default_config(); cfg["attractor_candidates_limit"] = 0; cfg["retained_set_optimization_threshold"] = 0
    sd = SuccessionDiagram.from_rules(bnet, config=cfg)
    try:
        c = [state_tuple(names, x) for x in sd.node_attractor_candidates(0, compute=True, greedy_asp_minification=greedy)]
        missing = [a for a in atts if not any(x in a for x in c)]
        print("attractor_candidates_limit=0 greedy", greedy, "candidates", c, "uncovered attractors", len(missing))
        if missing: bad.append("cand_limit")
    except RuntimeError:
        print("attractor_candidates_limit=0 greedy", greedy, ": RuntimeError (limit error)")
sys.exit(1 if bad else 0)
