# D11 (C01): a retained set that assigns every variable is returned as the only candidate/seed.
import sys; sys.path.insert(0, "/verif/findings")
from common import *
bnet = """a, !a
b, (!b&!c)|(b&!c)|(!b&c)
c, !c&!b
d, (!d&!b&!c)|(!d&b&!c)|(d&b&!c)"""
sd = SuccessionDiagram.from_rules(bnet)
names, atts = brute(bnet)
seeds = [state_tuple(names, s) for s in sd.node_attractor_seeds(0, compute=True)]
bad = [s for s in seeds if not any(s in a for a in atts)]
print("seeds", seeds, "attractors", [sorted(a) for a in atts], "seeds outside every attractor", bad)
sys.exit(1 if bad else 0)
