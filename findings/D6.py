# D6 (C20): is_subgraph / is_isomorphic never compare an unexpanded root.
import sys; sys.path.insert(0, "/verif/findings")
from common import *
a = SuccessionDiagram.from_rules("A, true")
b = SuccessionDiagram.from_rules("A, false")
print("spaces", a.node_data(0)["space"], b.node_data(0)["space"], "is_isomorphic", a.is_isomorphic(b), "is_subgraph", a.is_subgraph(b))
sys.exit(1 if a.is_isomorphic(b) or a.is_subgraph(b) else 0)
