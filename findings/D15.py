"""D15 (C16): pickling a diagram re-parses the network from .aeon text, which orders the variables by name; a network whose variable order
is not the name order (after sanitize_network_names renamed a variable, or built through the AEON API) comes back with other variable
indices, so the stored node keys (space_unique_key depends on the index) are stale: find_node no longer finds existing nodes and later
expansions diverge from the untouched diagram.   Run: PYTHONPATH=<tree> /venv/bin/python findings/D15.py   (exit 1 = defect present)"""
import pickle
import sys

from biodivine_aeon import BooleanNetwork

from biobalm import SuccessionDiagram
from biobalm.petri_net_translation import sanitize_network_names

bn = sanitize_network_names(BooleanNetwork.from_bnet("aa, aa | a{\na{, a{ & aa\n"))       # variables ['aa', 'a_']: not in name order
sd = SuccessionDiagram(bn)
sd.expand_bfs()
sd2 = pickle.loads(pickle.dumps(sd))
bad = []
for i in sd.node_ids():
    sp = sd.node_data(i)["space"]
    if sd.find_node(sp) != sd2.find_node(sp):
        bad.append((i, sp, sd.find_node(sp), sd2.find_node(sp)))
print("variable order before / after pickling:", sd.network.variable_names(), sd2.network.variable_names())
for b in bad:
    print("find_node differs: node %d %s: %s on the untouched diagram, %s after pickling" % b)
# a later expansion on a pickled partial diagram
p = SuccessionDiagram(bn)
p.expand_bfs(bfs_level_limit=0)
q = pickle.loads(pickle.dumps(p))
p.expand_bfs()
q.expand_bfs()
if len(p) != len(q):
    print(f"later expansion differs: {len(p)} nodes on the untouched diagram, {len(q)} after pickling")
    bad.append("size")
sys.exit(1 if bad else 0)
