# D14 (C01): expand_scc() reports a motif-avoidant attractor in two unrelated nodes (source-SCC pruning after an SCC with an MAA).
import sys; sys.path.insert(0, "/verif/findings")
from common import *
nets = {
 "pq-xyz": "P, (P & Q) | (!P & !Q)\nQ, (P & Q) | (!P & !Q)\nX, !Y & Z\nY, Y & Q\nZ, X",
}
bad = []
for name, bnet in nets.items():
    sd = SuccessionDiagram.from_rules(bnet)
    ok = sd.expand_scc()
    names, atts = brute(bnet)
    total = []
    for i in sd.expanded_ids():
        total += [(i, state_tuple(names, s)) for s in sd.node_attractor_seeds(i, compute=True)]
    per_att = {}
    for i, s in total:
        for k, a in enumerate(atts):
            if s in a: per_att.setdefault(k, []).append(i)
    dup = {k: v for k, v in per_att.items() if len(v) > 1}
    missing = [k for k in range(len(atts)) if k not in per_att]
    print(name, "expand_scc ->", ok, "attractors", len(atts), "seeds", len(total), "attractors reported by several nodes", dup, "missing", missing)
    if dup or missing: bad.append(name)
sys.exit(1 if bad else 0)
