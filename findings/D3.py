# D3 (C13): the symbolic attractor test spins forever (forward growth declined, no variable can be added).
import sys, signal; sys.path.insert(0, "/verif/findings")
from common import *
def handler(*a): raise TimeoutError()
signal.signal(signal.SIGALRM, handler)
cases = {
 "fresh root": ("a,a\nb,(!c&!b)|(c&!b)|(c&b)\nc,(!b&c)|(b&!c)\nd,!c", None),
 "expand_scc then root": ("A,(!A&!B)|C\nB,(!A&!B)|C\nC,A&B\np1, p1|t1\nt1, !t1&!p1", "scc"),
}
bad = []
for name, (bnet, pre) in cases.items():
    sd = SuccessionDiagram.from_rules(bnet)
    names, atts = brute(bnet)
    signal.alarm(20)
    try:
        if pre == "scc": sd.expand_scc()
        seeds = sd.node_attractor_seeds(0, compute=True)
        signal.alarm(0)
        st = [state_tuple(names, s) for s in seeds]
        ok = all(any(s in a for a in atts) for s in st)
        print(name, ": returned", len(seeds), "seeds; all inside attractors:", ok)
        if not ok: bad.append(name)
    except TimeoutError:
        print(name, ": node_attractor_seeds(0, compute=True) did not return within 20 s")
        bad.append(name)
sys.exit(1 if bad else 0)
