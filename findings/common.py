"""Shared helpers for the finding demonstrations (run with: cd /repo && /venv/bin/python /verif/findings/Dk.py).
Each script exits 1 (printing what it observed) when the defect is present and 0 when it is absent."""
import itertools, sys
from biodivine_aeon import BooleanNetwork, AsynchronousGraph
from biobalm import SuccessionDiagram

def brute(bnet):
    bn = BooleanNetwork.from_bnet(bnet).infer_valid_graph()
    names = [bn.get_variable_name(v) for v in bn.variables()]
    g = AsynchronousGraph(bn)
    fn = {v: g.mk_update_function(v) for v in names}
    states = list(itertools.product([0, 1], repeat=len(names)))
    def upd(s):
        d = {k: bool(x) for k, x in zip(names, s)}
        return tuple(1 if fn[v].r_restrict(d).is_true() else 0 for v in names)
    tab = {s: upd(s) for s in states}
    def succ(s):
        out = []
        for i in range(len(names)):
            if tab[s][i] != s[i]:
                t = list(s); t[i] = tab[s][i]; out.append(tuple(t))
        return out
    reach = {}
    for s in states:
        seen = {s}; st = [s]
        while st:
            x = st.pop()
            for y in succ(x):
                if y not in seen:
                    seen.add(y); st.append(y)
        reach[s] = frozenset(seen)
    atts = {reach[s] for s in states if all(s in reach[t] for t in reach[s])}
    return names, [set(a) for a in atts]

def state_tuple(names, d):
    return tuple(d[k] for k in names)
