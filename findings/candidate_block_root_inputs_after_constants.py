"""Candidate observation (C18, second clause, strategies expand_block / build): the free-input diagram has NO node for an input valuation when
constant propagation at the root turns further variables into inputs.

expand_block() fixes, at the root, all combinations of the inputs of the PERCOLATED root network jointly.  With  k = false,  x = x | k  the
variable x is an input of the percolated root network, so the root {k=0} gets the four children {s, x} in {0,1}^2 and the node of the
valuation s=0 of the (only declared) input s - the space {k=0, s=0} - does not exist, whereas the network with s fixed to false has exactly
that space as its root, with the children x=0 / x=1.  expand_bfs / expand_dfs do have the valuation node and the sub-diagram below it is identical
to the fixed-input diagram.  Trap spaces and attractors agree in all cases; only "the node for that input valuation" is missing.

Uses only biobalm's public API (the three networks are small enough to read the expected spaces off the rules).
Exit status 1 = the valuation node is missing under expand_block, 0 = present."""
import sys

from biobalm import SuccessionDiagram

FREE = "k, false\ns, s\nx, x | k\n"
FIXED = "k, false\ns, false\nx, x | k\n"


def spaces(sd):
    return sorted(tuple(sorted(sd.node_data(i)["space"].items())) for i in sd.node_ids())


def main():
    bad = False
    for strategy in ("expand_block", "expand_bfs", "expand_dfs"):
        free, fixed = SuccessionDiagram.from_rules(FREE), SuccessionDiagram.from_rules(FIXED)
        assert getattr(free, strategy)() is True and getattr(fixed, strategy)() is True
        assert fixed.node_data(fixed.root())["space"] == {"k": 0, "s": 0}
        top = free.find_node({"k": 0, "s": 0})
        inside = [sp for sp in spaces(free) if dict(sp).get("s") == 0]
        print(f"{strategy}: node of the valuation s=0 in the free-input diagram: {'present' if top is not None else 'MISSING'}; "
              f"free-input nodes inside s=0: {[dict(s) for s in inside]}; fixed-input diagram: {[dict(s) for s in spaces(fixed)]}")
        if top is None:
            bad = True
    return 1 if bad else 0


if __name__ == "__main__":
    sys.exit(main())
