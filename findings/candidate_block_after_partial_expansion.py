"""Observation (not a violation of the given properties; DESIGN.md 0.7, round 5): block expansion on a diagram whose root is already expanded.

expand_source_blocks starts from the root and skips nodes that are already expanded without looking at their successors, so after
expand_bfs(bfs_level_limit=0) a call of expand_block() returns True and leaves the children of the root unexpanded.  C03 / C15 claim
block and source-SCC expansion "started at the root" of a fresh diagram only (the four plain strategies are claimed from any partially
expanded diagram), and the docstring of expand_block does not say what its return value means, so nothing is violated.

    cd /repo && /venv/bin/python /verif/findings/candidate_block_after_partial_expansion.py     (always exits 0; prints what it sees)
"""
from biobalm import SuccessionDiagram

sd = SuccessionDiagram.from_rules("x, y\ny, x\ns0, s0\n", format="bnet")
print("expand_bfs(bfs_level_limit=0) ->", sd.expand_bfs(bfs_level_limit=0), "| nodes", len(sd), "| stubs", list(sd.stub_ids()))
print("expand_block()                ->", sd.expand_block(), "| nodes", len(sd), "| stubs", list(sd.stub_ids()), "| minimal", sd.minimal_trap_spaces())
print("expand_bfs()                  ->", sd.expand_bfs(), "| nodes", len(sd), "| stubs", list(sd.stub_ids()), "| minimal", sd.minimal_trap_spaces())
