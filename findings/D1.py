# D1 (C08/C01): regenerate branch with an empty NFVS returns no candidates.
import sys; sys.path.insert(0, "/verif/findings")
from common import *
bnet = "\n".join(f"x{i}, x{i}" for i in range(10))
sd = SuccessionDiagram.from_rules(bnet)
c = sd.node_attractor_candidates(0, compute=True)
print("candidates at the unexpanded root:", len(c), "(network has 1024 fixed points)")
sys.exit(1 if len(c) == 0 else 0)
