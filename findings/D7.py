# D7 (C15): a size-limited expansion returns False although no unexpanded node remains.
import sys; sys.path.insert(0, "/verif/findings")
from common import *
bnet = """a, b
b, a
c, c&a"""
bad = []
for mode in ["bfs", "dfs", "minimal", "attractor_seeds", "target"]:
    sd = SuccessionDiagram.from_rules(bnet)
    sd.expand_bfs()
    assert not list(sd.stub_ids())
    n = len(sd)
    r = {"bfs": lambda: sd.expand_bfs(size_limit=n), "dfs": lambda: sd.expand_dfs(size_limit=n),
         "minimal": lambda: sd.expand_minimal_spaces(size_limit=n),
         "attractor_seeds": lambda: sd.expand_attractor_seeds(size_limit=n),
         "target": lambda: sd.expand_to_target({"a": 1}, size_limit=n)}[mode]()
    print(mode, "on a fully expanded diagram with size_limit=len(sd) returns", r)
    if r is False: bad.append(mode)
sys.exit(1 if bad else 0)
