# D13 (C14): sub-diagram attachment (expand_scc) gives a previously queried stub successors without discarding its attractor data.
import sys; sys.path.insert(0, "/verif/findings")
from common import *
nets = {
 "two switches": "a, b\nb, a\nc, d\nd, c",
 "switch+maa": "A,(!A&!B)|C\nB,(!A&!B)|C\nC,A&B\np, q\nq, p",
 "three switches": "a, b\nb, a\nc, d\nd, c\ne, f\nf, e",
}
bad = []
for name, bnet in nets.items():
    for pre in ["root_stub"]:   # (starting expand_scc on a partially expanded diagram is outside C03/C14)
        sd = SuccessionDiagram.from_rules(bnet)
        if pre == "bfs0":
            sd.expand_bfs(bfs_level_limit=0)
        for i in list(sd.node_ids()):
            if not sd.node_data(i)["expanded"]:
                sd.node_attractor_seeds(i, compute=True); sd.node_attractor_candidates(i, compute=True)
        sd.expand_scc()
        names, atts = brute(bnet)
        total = []
        for i in sd.expanded_ids():
            total += [state_tuple(names, s) for s in sd.node_attractor_seeds(i, compute=True)]
        dup = len(total) - len(set(total))
        print(name, pre, "attractors", len(atts), "seeds over expanded nodes", len(total), "duplicates", dup)
        if dup or len(total) != len(atts): bad.append((name, pre))
sys.exit(1 if bad else 0)
