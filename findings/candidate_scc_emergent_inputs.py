"""Candidate finding (C18, second clause, strategy expand_scc): the diagram of a network with its input fixed is NOT isomorphic to the part
of the free-input diagram below the node of that input valuation.

expand_scc() looks for source (input) variables once, at the root, and fixes all their combinations jointly.  Variables that become inputs
only after an input valuation has been percolated (x, x & s  once s = 1) are inputs of the ROOT network of the fixed-input network
(s, true), where they are fixed jointly (2^k children of the root), but they are ordinary one-variable source SCCs below the valuation node of the
free-input diagram, where they are expanded one after the other (a chain of 2 + 4 + ... nodes).  Minimal trap spaces and attractors agree;
only the shape (node spaces / edges) differs.  build(), expand_block(), expand_bfs(), expand_dfs() do not show the difference.

Uses only biobalm's public API; the minimal trap spaces of both networks are cross-checked by brute force (3^n subspaces).
Exit status 1 = difference present, 0 = absent."""
import itertools
import sys

from biobalm import SuccessionDiagram

FREE = {"s": "s", "x": "x & s", "y": "y & s"}
FIXED = dict(FREE, s="true")


def bnet(rules):
    return "".join(f"{v}, {e}\n" for v, e in sorted(rules.items()))


def brute_min_traps(rules):
    names = sorted(rules)
    code = {v: compile(rules[v].replace("!", " not ").replace("&", " and ").replace("|", " or ").replace("true", "True").replace("false", "False"), v, "eval") for v in names}
    traps = []
    for assignment in itertools.product((0, 1, None), repeat=len(names)):
        space = {v: a for v, a in zip(names, assignment) if a is not None}
        free = [v for v in names if v not in space]
        ok = True
        for values in itertools.product((0, 1), repeat=len(free)):
            env = {**{k: bool(v) for k, v in space.items()}, **dict(zip(free, map(bool, values)))}
            if any(int(bool(eval(code[v], {}, env))) != c for v, c in space.items()):
                ok = False
                break
        if ok:
            traps.append(space)
    return sorted(tuple(sorted(t.items())) for t in traps if not any(o != t and all(o.get(k) == v for k, v in t.items()) for o in traps))


def shape(sd, top):
    below, stack = {top}, [top]
    while stack:
        for c in sd.node_successors(stack.pop()):
            if c not in below:
                below.add(c)
                stack.append(c)
    key = lambda i: tuple(sorted(sd.node_data(i)["space"].items()))  # noqa: E731
    nodes = sorted((key(i), sd.node_data(i)["expanded"]) for i in below)
    edges = sorted((key(p), key(c)) for p in below if sd.node_data(p)["expanded"] for c in sd.node_successors(p))
    return nodes, edges


def main():
    bad = False
    for strategy in ("expand_scc", "expand_block", "expand_bfs"):
        free = SuccessionDiagram.from_rules(bnet(FREE))
        fixed = SuccessionDiagram.from_rules(bnet(FIXED))
        assert getattr(free, strategy)() is True and getattr(fixed, strategy)() is True
        for sd, rules in ((free, FREE), (fixed, FIXED)):
            got = sorted(tuple(sorted(sd.node_data(i)["space"].items())) for i in sd.minimal_trap_spaces())
            assert got == brute_min_traps(rules), "minimal trap spaces differ from brute force"
        top = free.find_node({"s": 1})
        assert top is not None and fixed.node_data(fixed.root())["space"] == {"s": 1}
        a, b = shape(free, top), shape(fixed, fixed.root())
        same = a == b
        print(f"{strategy}: {len(a[0])} nodes / {len(a[1])} edges below the node s=1 of the free-input diagram, "
              f"{len(b[0])} nodes / {len(b[1])} edges in the diagram of the network with s fixed to true -> {'same shape' if same else 'DIFFERENT shape'}")
        if not same:
            bad = True
            print("   only below the valuation node:", [dict(n) for n, _ in a[0] if n not in [m for m, _ in b[0]]])
            print("   only in the fixed-input diagram:", [dict(n) for n, _ in b[0] if n not in [m for m, _ in a[0]]])
    return 1 if bad else 0


if __name__ == "__main__":
    sys.exit(main())
